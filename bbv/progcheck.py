"""Assemble a structured program with the real assembler, observe the layout, and judge every item against
the source-level meaning (sem.py).  Shared by C03 C04 C05 C08 C09 C12 C20.
"""
import random

from . import monitors, sem
from .gen import program as P


class Exam:
    """result of examining one build of one program"""
    __slots__ = ('lay', 'ok', 'exc', 'out', 'labels_true', 'labels_reported', 'per_item', 'layout_problem', 'lines')


def examine(asm, items, compress, seed=0, nregs=4, judge=True, lines=None, eol='\n', preseed=None, extern=None):
    ex = Exam()
    ex.lines = lines if lines is not None else P.render(items)
    lay = monitors.layout(asm, ex.lines, compress, eol=eol, preseed=preseed)
    ex.lay = lay
    ex.ok = lay.obs.ok
    ex.exc = lay.obs.exc
    ex.out = lay.obs.out
    ex.per_item = []
    ex.layout_problem = None
    ex.labels_true = None
    ex.labels_reported = lay.obs.labels
    if not ex.ok:
        return ex
    if lay.chunks is None or not lay.order_ok:
        ex.layout_problem = lay.why or 'layout could not be observed'
        return ex
    ex.labels_true = P.item_offsets(items, lay.chunks)
    if not judge:
        return ex
    consts = {it['name']: it['value'] for it in items if it['k'] == 'const' and 'labexpr' not in it}
    consts.update(extern or {})        # symbols the caller supplied in the label table and the program does not define: absolute
    for it in items:
        if it['k'] == 'const' and 'labexpr' in it:
            # a constant defined from labels (refused today): if a build accepts it, it means the value over the final offsets
            consts[it['name']] = P.ev(it['labexpr'], ex.labels_true, consts, 0)
    rng = random.Random('exam-%s' % (seed,))
    for idx, (it, (st, data)) in enumerate(zip(items, lay.chunks)):
        k = it['k']
        if k == 'inst':
            probs, info = sem.check_inst(it, data, st, ex.labels_true, consts, rng)
        elif k == 'pseudo':
            probs, info = sem.check_pseudo(it, data, st, ex.labels_true, consts, rng, ex.out, nregs=nregs)
        elif k in ('data', 'pack'):
            probs, info = check_data(it, data, st, ex.labels_true, consts)
        else:
            probs, info = [], {}
        ex.per_item.append((idx, it, st, data, probs, info))
    return ex


def check_data(it, data, here, labels, consts):
    v = P.ev(it['val'], labels, consts, here)
    if it['k'] == 'data':
        w = P.SH_W[it['d']]
        order = 'little'
        lo, hi = -(1 << (8 * w - 1)), (1 << (8 * w)) - 1
    else:
        w = P.PACK_W[it['fmt'][1]]
        order = 'little' if it['fmt'][0] == '<' else 'big'
        if it['fmt'][1].islower():
            lo, hi = -(1 << (8 * w - 1)), (1 << (8 * w - 1)) - 1
        else:
            lo, hi = 0, (1 << (8 * w)) - 1
    if not (lo <= v <= hi):
        return ['value %d does not fit %s but output %s was produced' % (v, it.get('d') or it['fmt'], data.hex())], {}
    exp = (v % (1 << (8 * w))).to_bytes(w, order)
    if data != exp:
        return ['data %s emitted %s, the value over the final label offsets is %d = %s' % (P.r_item(it), data.hex(), v, exp.hex())], {}
    return [], {'label_dep': P.label_dependent(it['val'])}


def label_table_problems(ex):
    """the reported label table must give exactly the offset of the first byte after each label"""
    out = []
    if ex.labels_reported is None:
        return out          # this build did not ask for the label table
    for name, off in ex.labels_true.items():
        rep = ex.labels_reported.get(name)
        if rep != off:
            out.append('label %s reported at %r, the first byte after it is at offset %d' % (name, rep, off))
    for name in ex.labels_reported:
        if name not in ex.labels_true and not name.startswith('__bbvf') and not name.startswith('EXT_'):
            out.append('label table contains %r which the program does not define' % name)
    return out


def is_transfer(it):
    if it['k'] not in ('inst', 'pseudo'):
        return False
    return any(isinstance(o, dict) and 't' in o for o in it['ops'])
