"""bbv - runtime monitors for bronzebeard (see /verif/DESIGN.md)."""
