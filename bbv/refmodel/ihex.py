"""Intel HEX reader written from the format description (record types 00 data, 01 EOF, 02 extended segment address,
04 extended linear address, 03/05 start addresses ignored).  -> {absolute address: byte}"""


def parse(text):
    mem = {}
    upper = 0
    seg = 0
    eof = False
    for ln, line in enumerate(text.splitlines(), 1):
        line = line.strip()
        if not line:
            continue
        if eof:
            raise ValueError('record after EOF at line %d' % ln)
        if not line.startswith(':'):
            raise ValueError('line %d does not start with a colon' % ln)
        raw = bytes.fromhex(line[1:])
        if len(raw) < 5 or len(raw) != raw[0] + 5:
            raise ValueError('line %d: length field does not match the record' % ln)
        if sum(raw) & 0xff:
            raise ValueError('line %d: checksum mismatch' % ln)
        n, addr, typ, data = raw[0], (raw[1] << 8) | raw[2], raw[3], raw[4:-1]
        if typ == 0:
            base = (upper << 16) + (seg << 4)
            for i, b in enumerate(data):
                a = base + ((addr + i) & 0xffff) if seg and not upper else base + addr + i
                if a in mem:
                    raise ValueError('line %d: address %#x written twice' % (ln, a))
                mem[a] = b
        elif typ == 1:
            eof = True
        elif typ == 2:
            seg = (data[0] << 8) | data[1]
            upper = 0
        elif typ == 4:
            upper = (data[0] << 8) | data[1]
            seg = 0
        elif typ in (3, 5):
            pass
        else:
            raise ValueError('line %d: unknown record type %d' % (ln, typ))
    if not eof:
        raise ValueError('no EOF record')
    return mem
