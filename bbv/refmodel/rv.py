"""Independent RV32IMAC + Zicsr + Zifencei reference decoder (prototype).
Written from the RISC-V unprivileged spec tables, shares no code with bronzebeard.
"""

def sx(v, bits):
    v &= (1 << bits) - 1
    return v - (1 << bits) if v >> (bits - 1) else v

def bits(w, hi, lo):
    return (w >> lo) & ((1 << (hi - lo + 1)) - 1)

LOADS = {0: 'lb', 1: 'lh', 2: 'lw', 4: 'lbu', 5: 'lhu'}
STORES = {0: 'sb', 1: 'sh', 2: 'sw'}
BRANCHES = {0: 'beq', 1: 'bne', 4: 'blt', 5: 'bge', 6: 'bltu', 7: 'bgeu'}
OPIMM = {0: 'addi', 2: 'slti', 3: 'sltiu', 4: 'xori', 6: 'ori', 7: 'andi'}
OP = {
    (0, 0): 'add', (0x20, 0): 'sub', (0, 1): 'sll', (0, 2): 'slt', (0, 3): 'sltu',
    (0, 4): 'xor', (0, 5): 'srl', (0x20, 5): 'sra', (0, 6): 'or', (0, 7): 'and',
    (1, 0): 'mul', (1, 1): 'mulh', (1, 2): 'mulhsu', (1, 3): 'mulhu',
    (1, 4): 'div', (1, 5): 'divu', (1, 6): 'rem', (1, 7): 'remu',
}
AMO = {
    0b00010: 'lr.w', 0b00011: 'sc.w', 0b00001: 'amoswap.w', 0b00000: 'amoadd.w',
    0b00100: 'amoxor.w', 0b01100: 'amoand.w', 0b01000: 'amoor.w', 0b10000: 'amomin.w',
    0b10100: 'amomax.w', 0b11000: 'amominu.w', 0b11100: 'amomaxu.w',
}
CSR = {1: 'csrrw', 2: 'csrrs', 3: 'csrrc', 5: 'csrrwi', 6: 'csrrsi', 7: 'csrrci'}


def decode32(w):
    """Return dict(name=..., fields...) or None when w is not a valid RV32IMA_Zicsr_Zifencei word."""
    if w & 3 != 3:
        return None
    op = w & 0x7f
    rd = bits(w, 11, 7)
    f3 = bits(w, 14, 12)
    rs1 = bits(w, 19, 15)
    rs2 = bits(w, 24, 20)
    f7 = bits(w, 31, 25)
    if op == 0x37:
        return dict(name='lui', rd=rd, imm=sx(w >> 12, 20))
    if op == 0x17:
        return dict(name='auipc', rd=rd, imm=sx(w >> 12, 20))
    if op == 0x6f:
        imm = (bits(w, 31, 31) << 20) | (bits(w, 19, 12) << 12) | (bits(w, 20, 20) << 11) | (bits(w, 30, 21) << 1)
        return dict(name='jal', rd=rd, imm=sx(imm, 21))
    if op == 0x67:
        if f3 != 0:
            return None
        return dict(name='jalr', rd=rd, rs1=rs1, imm=sx(w >> 20, 12))
    if op == 0x63:
        if f3 not in BRANCHES:
            return None
        imm = (bits(w, 31, 31) << 12) | (bits(w, 7, 7) << 11) | (bits(w, 30, 25) << 5) | (bits(w, 11, 8) << 1)
        return dict(name=BRANCHES[f3], rs1=rs1, rs2=rs2, imm=sx(imm, 13))
    if op == 0x03:
        if f3 not in LOADS:
            return None
        return dict(name=LOADS[f3], rd=rd, rs1=rs1, imm=sx(w >> 20, 12))
    if op == 0x23:
        if f3 not in STORES:
            return None
        imm = (f7 << 5) | rd
        return dict(name=STORES[f3], rs1=rs1, rs2=rs2, imm=sx(imm, 12))
    if op == 0x13:
        if f3 == 1:
            if f7 != 0:
                return None
            return dict(name='slli', rd=rd, rs1=rs1, shamt=rs2)
        if f3 == 5:
            if f7 == 0:
                return dict(name='srli', rd=rd, rs1=rs1, shamt=rs2)
            if f7 == 0x20:
                return dict(name='srai', rd=rd, rs1=rs1, shamt=rs2)
            return None
        return dict(name=OPIMM[f3], rd=rd, rs1=rs1, imm=sx(w >> 20, 12))
    if op == 0x33:
        if (f7, f3) not in OP:
            return None
        return dict(name=OP[(f7, f3)], rd=rd, rs1=rs1, rs2=rs2)
    if op == 0x0f:
        if f3 == 0:
            # fence: fm[31:28] pred[27:24] succ[23:20] rs1 rd (rs1/rd reserved, should be 0)
            return dict(name='fence', fm=bits(w, 31, 28), pred=bits(w, 27, 24), succ=bits(w, 23, 20), rd=rd, rs1=rs1)
        if f3 == 1:
            return dict(name='fence.i', rd=rd, rs1=rs1, imm=sx(w >> 20, 12))
        return None
    if op == 0x73:
        if f3 == 0:
            if w == 0x00000073:
                return dict(name='ecall')
            if w == 0x00100073:
                return dict(name='ebreak')
            return None
        if f3 in CSR:
            # rs1 field is a register for csrrw/s/c and a 5-bit uimm for the *i forms
            return dict(name=CSR[f3], rd=rd, rs1=rs1, csr=bits(w, 31, 20))
        return None
    if op == 0x2f:
        if f3 != 2:
            return None
        f5 = bits(w, 31, 27)
        if f5 not in AMO:
            return None
        if AMO[f5] == 'lr.w' and rs2 != 0:
            return None
        return dict(name=AMO[f5], rd=rd, rs1=rs1, rs2=rs2, aq=bits(w, 26, 26), rl=bits(w, 25, 25))
    return None


# ---------------------------------------------------------------------------
# RV32C.  decode16 returns (klass, insn) where klass in
#   'legal'    : a defined, non-hint RV32C integer instruction
#   'hint'     : encodes a HINT (architecturally a no-op code point)
#   'reserved' : reserved / NSE on RV32 / illegal (includes the all-zero halfword)
#   'float'    : RV32FC/DC code point (c.flw, c.fld, ...), outside the integer subset
# insn is dict(name=..., operand fields) for legal (and for hint where meaningful)
# ---------------------------------------------------------------------------

def decode16(h):
    assert 0 <= h <= 0xffff
    q = h & 3
    f3 = bits(h, 15, 13)
    if q == 3:
        return ('notc', None)
    if q == 0:
        rdp = 8 + bits(h, 4, 2)
        rs1p = 8 + bits(h, 9, 7)
        if f3 == 0:
            imm = (bits(h, 10, 7) << 6) | (bits(h, 12, 11) << 4) | (bits(h, 5, 5) << 3) | (bits(h, 6, 6) << 2)
            if imm == 0:
                return ('reserved', None)  # includes the illegal all-zero instruction
            return ('legal', dict(name='c.addi4spn', rd=rdp, imm=imm))
        if f3 in (2, 6):
            imm = (bits(h, 5, 5) << 6) | (bits(h, 12, 10) << 3) | (bits(h, 6, 6) << 2)
            if f3 == 2:
                return ('legal', dict(name='c.lw', rd=rdp, rs1=rs1p, imm=imm))
            return ('legal', dict(name='c.sw', rs1=rs1p, rs2=rdp, imm=imm))
        if f3 in (1, 3, 5, 7):
            return ('float', None)  # c.fld c.flw c.fsd c.fsw
        return ('reserved', None)  # f3 == 4
    if q == 1:
        rd = bits(h, 11, 7)
        imm6 = sx((bits(h, 12, 12) << 5) | bits(h, 6, 2), 6)
        if f3 == 0:
            if rd == 0:
                if imm6 == 0:
                    return ('legal', dict(name='c.nop'))
                return ('hint', None)
            if imm6 == 0:
                return ('hint', None)
            return ('legal', dict(name='c.addi', rd=rd, imm=imm6))
        if f3 in (1, 5):
            imm = (bits(h, 12, 12) << 11) | (bits(h, 8, 8) << 10) | (bits(h, 10, 9) << 8) | (bits(h, 6, 6) << 7) | \
                  (bits(h, 7, 7) << 6) | (bits(h, 2, 2) << 5) | (bits(h, 11, 11) << 4) | (bits(h, 5, 3) << 1)
            return ('legal', dict(name='c.jal' if f3 == 1 else 'c.j', imm=sx(imm, 12)))
        if f3 == 2:
            if rd == 0:
                return ('hint', None)
            return ('legal', dict(name='c.li', rd=rd, imm=imm6))
        if f3 == 3:
            if rd == 2:
                imm = (bits(h, 12, 12) << 9) | (bits(h, 4, 3) << 7) | (bits(h, 5, 5) << 6) | (bits(h, 2, 2) << 5) | (bits(h, 6, 6) << 4)
                imm = sx(imm, 10)
                if imm == 0:
                    return ('reserved', None)
                return ('legal', dict(name='c.addi16sp', imm=imm))
            if imm6 == 0:
                return ('reserved', None)
            if rd == 0:
                return ('hint', None)
            return ('legal', dict(name='c.lui', rd=rd, imm=imm6))
        if f3 == 4:
            sub = bits(h, 11, 10)
            rdp = 8 + bits(h, 9, 7)
            if sub in (0, 1):
                shamt = (bits(h, 12, 12) << 5) | bits(h, 6, 2)
                if shamt & 32:
                    return ('reserved', None)  # RV32 NSE
                if shamt == 0:
                    return ('hint', None)
                return ('legal', dict(name='c.srli' if sub == 0 else 'c.srai', rd=rdp, shamt=shamt))
            if sub == 2:
                return ('legal', dict(name='c.andi', rd=rdp, imm=imm6))
            rs2p = 8 + bits(h, 4, 2)
            if bits(h, 12, 12) == 0:
                return ('legal', dict(name=['c.sub', 'c.xor', 'c.or', 'c.and'][bits(h, 6, 5)], rd=rdp, rs2=rs2p))
            return ('reserved', None)  # c.subw/c.addw are RV64 only, rest reserved
        if f3 in (6, 7):
            rs1p = 8 + bits(h, 9, 7)
            imm = (bits(h, 12, 12) << 8) | (bits(h, 6, 5) << 6) | (bits(h, 2, 2) << 5) | (bits(h, 11, 10) << 3) | (bits(h, 4, 3) << 1)
            return ('legal', dict(name='c.beqz' if f3 == 6 else 'c.bnez', rs1=rs1p, imm=sx(imm, 9)))
    if q == 2:
        rd = bits(h, 11, 7)
        rs2 = bits(h, 6, 2)
        if f3 == 0:
            shamt = (bits(h, 12, 12) << 5) | rs2
            if shamt & 32:
                return ('reserved', None)
            if rd == 0 or shamt == 0:
                return ('hint', None)
            return ('legal', dict(name='c.slli', rd=rd, shamt=shamt))
        if f3 == 2:
            imm = (bits(h, 3, 2) << 6) | (bits(h, 12, 12) << 5) | (bits(h, 6, 4) << 2)
            if rd == 0:
                return ('reserved', None)
            return ('legal', dict(name='c.lwsp', rd=rd, imm=imm))
        if f3 == 4:
            if bits(h, 12, 12) == 0:
                if rs2 == 0:
                    if rd == 0:
                        return ('reserved', None)
                    return ('legal', dict(name='c.jr', rs1=rd))
                if rd == 0:
                    return ('hint', None)
                return ('legal', dict(name='c.mv', rd=rd, rs2=rs2))
            if rs2 == 0:
                if rd == 0:
                    return ('legal', dict(name='c.ebreak'))
                return ('legal', dict(name='c.jalr', rs1=rd))
            if rd == 0:
                return ('hint', None)
            return ('legal', dict(name='c.add', rd=rd, rs2=rs2))
        if f3 == 6:
            imm = (bits(h, 8, 7) << 6) | (bits(h, 12, 9) << 2)
            return ('legal', dict(name='c.swsp', rs2=rs2, imm=imm))
        return ('float', None)  # c.fldsp c.flwsp c.fsdsp c.fswsp
    raise AssertionError


def expand16(i):
    """RVC -> base instruction, per the 'expands to' column of the RVC chapter."""
    n = i['name']
    if n == 'c.addi4spn': return dict(name='addi', rd=i['rd'], rs1=2, imm=i['imm'])
    if n == 'c.lw': return dict(name='lw', rd=i['rd'], rs1=i['rs1'], imm=i['imm'])
    if n == 'c.sw': return dict(name='sw', rs1=i['rs1'], rs2=i['rs2'], imm=i['imm'])
    if n == 'c.nop': return dict(name='addi', rd=0, rs1=0, imm=0)
    if n == 'c.addi': return dict(name='addi', rd=i['rd'], rs1=i['rd'], imm=i['imm'])
    if n == 'c.jal': return dict(name='jal', rd=1, imm=i['imm'])
    if n == 'c.j': return dict(name='jal', rd=0, imm=i['imm'])
    if n == 'c.li': return dict(name='addi', rd=i['rd'], rs1=0, imm=i['imm'])
    if n == 'c.addi16sp': return dict(name='addi', rd=2, rs1=2, imm=i['imm'])
    if n == 'c.lui': return dict(name='lui', rd=i['rd'], imm=i['imm'])
    if n == 'c.srli': return dict(name='srli', rd=i['rd'], rs1=i['rd'], shamt=i['shamt'])
    if n == 'c.srai': return dict(name='srai', rd=i['rd'], rs1=i['rd'], shamt=i['shamt'])
    if n == 'c.andi': return dict(name='andi', rd=i['rd'], rs1=i['rd'], imm=i['imm'])
    if n in ('c.sub', 'c.xor', 'c.or', 'c.and'): return dict(name=n[2:], rd=i['rd'], rs1=i['rd'], rs2=i['rs2'])
    if n == 'c.beqz': return dict(name='beq', rs1=i['rs1'], rs2=0, imm=i['imm'])
    if n == 'c.bnez': return dict(name='bne', rs1=i['rs1'], rs2=0, imm=i['imm'])
    if n == 'c.slli': return dict(name='slli', rd=i['rd'], rs1=i['rd'], shamt=i['shamt'])
    if n == 'c.lwsp': return dict(name='lw', rd=i['rd'], rs1=2, imm=i['imm'])
    if n == 'c.jr': return dict(name='jalr', rd=0, rs1=i['rs1'], imm=0)
    if n == 'c.mv': return dict(name='add', rd=i['rd'], rs1=0, rs2=i['rs2'])
    if n == 'c.ebreak': return dict(name='ebreak')
    if n == 'c.jalr': return dict(name='jalr', rd=1, rs1=i['rs1'], imm=0)
    if n == 'c.add': return dict(name='add', rd=i['rd'], rs1=i['rd'], rs2=i['rs2'])
    if n == 'c.swsp': return dict(name='sw', rs1=2, rs2=i['rs2'], imm=i['imm'])
    raise KeyError(n)
