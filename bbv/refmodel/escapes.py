"""Backslash-escape processing as Python documents it for string literals (the docs show a newline escape and an escaped
backslash; the implementation uses the unicode_escape codec): the subset every escape processor agrees on."""

SIMPLE = {'n': '\n', 't': '\t', 'r': '\r', '\\': '\\', "'": "'", '"': '"', '0': '\0', 'a': '\a', 'b': '\b', 'f': '\f', 'v': '\v'}


def process(text):
    out = []
    i = 0
    while i < len(text):
        ch = text[i]
        if ch != '\\':
            out.append(ch)
            i += 1
            continue
        if i + 1 >= len(text):
            raise ValueError('lone backslash at end')
        n = text[i + 1]
        if n == 'x':
            hx = text[i + 2:i + 4]
            if len(hx) != 2:
                raise ValueError('truncated \\x escape')
            out.append(chr(int(hx, 16)))
            i += 4
        elif n == 'u':
            hx = text[i + 2:i + 6]
            if len(hx) != 4:
                raise ValueError('truncated \\u escape')
            out.append(chr(int(hx, 16)))
            i += 6
        elif n in SIMPLE and not (n == '0' and text[i + 2:i + 3].isdigit()):
            out.append(SIMPLE[n])
            i += 2
        elif n in 'N01234567U' or n in '\n\r':
            raise ValueError('escape outside the checked subset: \\%s' % n)
        else:
            # a backslash that starts no escape (`\\q`, `\\%`, `\\€`): every escape processor leaves both characters as written
            out.append('\\' + n)
            i += 2
    return ''.join(out)
