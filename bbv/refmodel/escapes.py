"""Backslash-escape processing as Python documents it for string literals (the docs show a newline escape and an escaped
backslash; the implementation uses the unicode_escape codec): the subset every escape processor agrees on."""

SIMPLE = {'n': '\n', 't': '\t', 'r': '\r', '\\': '\\', "'": "'", '"': '"', '0': '\0', 'a': '\a', 'b': '\b', 'f': '\f', 'v': '\v'}


def _named(name):
    import unicodedata
    try:
        return unicodedata.lookup(name)
    except KeyError:
        return None


UNMODELLED = r'\\N\{[^}]*\}|\\U[0-9a-fA-F]{8}'       # escape-shaped sequences that name no character: what they become is not specified


def segments(text):
    """for a text the model cannot process as a whole because of UNMODELLED sequences: the processed pieces between them, in order
    (each of them must appear in the emitted bytes, the first at the start, the last at the end), or None"""
    import re
    parts = re.split(UNMODELLED, text)
    if len(parts) < 2:
        return None
    try:
        return [process(p) for p in parts]
    except ValueError:
        return None


def process(text):
    out = []
    i = 0
    while i < len(text):
        ch = text[i]
        if ch != '\\':
            out.append(ch)
            i += 1
            continue
        if i + 1 >= len(text):
            raise ValueError('lone backslash at end')
        n = text[i + 1]
        if n == 'x':
            hx = text[i + 2:i + 4]
            if len(hx) != 2:
                raise ValueError('truncated \\x escape')
            out.append(chr(int(hx, 16)))
            i += 4
        elif n == 'u':
            hx = text[i + 2:i + 6]
            if len(hx) != 4:
                raise ValueError('truncated \\u escape')
            out.append(chr(int(hx, 16)))
            i += 6
        elif n == 'U' and len(text[i + 2:i + 10]) == 8 and all(c in '0123456789abcdefABCDEF' for c in text[i + 2:i + 10]) \
                and int(text[i + 2:i + 10], 16) <= 0x10ffff and not 0xd800 <= int(text[i + 2:i + 10], 16) <= 0xdfff:
            out.append(chr(int(text[i + 2:i + 10], 16)))
            i += 10
        elif n == 'N' and text[i + 2:i + 3] == '{' and '}' in text[i + 3:] and _named(text[i + 3:text.index('}', i + 3)]) is not None:
            out.append(_named(text[i + 3:text.index('}', i + 3)]))
            i = text.index('}', i + 3) + 1
        elif n in SIMPLE and not (n == '0' and text[i + 2:i + 3].isdigit()):
            out.append(SIMPLE[n])
            i += 2
        elif n in 'N01234567U' or n in '\n\r':
            raise ValueError('escape outside the checked subset: \\%s' % n)
        else:
            # a backslash that starts no escape (`\\q`, `\\%`, `\\€`): every escape processor leaves both characters as written
            out.append('\\' + n)
            i += 2
    return ''.join(out)
