"""RV32IM(C) single-step reference executor, written from the unprivileged spec (chapters 2, 7, 16).
A / Zicsr / fence / ecall / ebreak are decoded but treated as opaque events (recorded, no state change
other than pc advancing).  Shares no code with bronzebeard.
"""
from . import rv

M32 = 0xffffffff


def s32(v):
    v &= M32
    return v - (1 << 32) if v & 0x80000000 else v


class Machine:
    def __init__(self, regs=None, pc=0, code=b'', base=0):
        self.x = list(regs) if regs is not None else [0] * 32
        self.x[0] = 0
        self.pc = pc & M32
        self.code = bytes(code)
        self.base = base
        self.mem = {}
        self.accesses = []     # ('load'|'store', addr, size[, value])
        self.events = []       # opaque instructions executed
        self.written = []      # registers written (incl. x0 attempts are not recorded)
        self.trap = None

    def fetch(self):
        off = self.pc - self.base
        if off < 0 or off + 2 > len(self.code):
            self.trap = 'fetch outside code at pc=%#x' % self.pc
            return None
        h = self.code[off] | (self.code[off + 1] << 8)
        if h & 3 != 3:
            return (2, h)
        if off + 4 > len(self.code):
            self.trap = 'fetch outside code at pc=%#x' % self.pc
            return None
        return (4, h | (self.code[off + 2] << 16) | (self.code[off + 3] << 24))

    def wr(self, rd, v):
        if rd != 0:
            self.x[rd] = v & M32
            self.written.append(rd)

    def load(self, addr, size, signed):
        addr &= M32
        v = 0
        for i in range(size):
            v |= self.mem.get((addr + i) & M32, 0) << (8 * i)
        self.accesses.append(('load', addr, size))
        if signed and v >> (8 * size - 1):
            v -= 1 << (8 * size)
        return v & M32

    def store(self, addr, size, v):
        addr &= M32
        for i in range(size):
            self.mem[(addr + i) & M32] = (v >> (8 * i)) & 0xff
        self.accesses.append(('store', addr, size, v & ((1 << (8 * size)) - 1)))

    def step(self):
        """Execute one instruction.  Returns the decoded (base-form) instruction dict, or None on trap."""
        f = self.fetch()
        if f is None:
            return None
        size, enc = f
        if size == 2:
            k, ci = rv.decode16(enc)
            if k != 'legal':
                self.trap = 'illegal 16-bit encoding %#06x (%s) at pc=%#x' % (enc, k, self.pc)
                return None
            i = rv.expand16(ci)
        else:
            i = rv.decode32(enc)
            if i is None:
                self.trap = 'illegal 32-bit encoding %#010x at pc=%#x' % (enc, self.pc)
                return None
        self.execute(i, size)
        return i

    def execute(self, i, size):
        n = i['name']
        x = self.x
        pc = self.pc
        nxt = (pc + size) & M32
        g = i.get
        if n == 'lui':
            self.wr(i['rd'], i['imm'] << 12)
        elif n == 'auipc':
            self.wr(i['rd'], pc + (i['imm'] << 12))
        elif n == 'jal':
            self.wr(i['rd'], nxt)
            nxt = (pc + i['imm']) & M32
        elif n == 'jalr':
            t = (x[i['rs1']] + i['imm']) & M32 & ~1
            self.wr(i['rd'], nxt)
            nxt = t
        elif n in ('beq', 'bne', 'blt', 'bge', 'bltu', 'bgeu'):
            a, b = x[i['rs1']], x[i['rs2']]
            take = {'beq': a == b, 'bne': a != b, 'blt': s32(a) < s32(b), 'bge': s32(a) >= s32(b),
                    'bltu': a < b, 'bgeu': a >= b}[n]
            if take:
                nxt = (pc + i['imm']) & M32
        elif n in ('lb', 'lh', 'lw', 'lbu', 'lhu'):
            sz = {'lb': 1, 'lbu': 1, 'lh': 2, 'lhu': 2, 'lw': 4}[n]
            self.wr(i['rd'], self.load(x[i['rs1']] + i['imm'], sz, n in ('lb', 'lh')))
        elif n in ('sb', 'sh', 'sw'):
            self.store(x[i['rs1']] + i['imm'], {'sb': 1, 'sh': 2, 'sw': 4}[n], x[i['rs2']])
        elif n == 'addi':
            self.wr(i['rd'], x[i['rs1']] + i['imm'])
        elif n == 'slti':
            self.wr(i['rd'], 1 if s32(x[i['rs1']]) < i['imm'] else 0)
        elif n == 'sltiu':
            self.wr(i['rd'], 1 if x[i['rs1']] < (i['imm'] & M32) else 0)
        elif n == 'xori':
            self.wr(i['rd'], x[i['rs1']] ^ (i['imm'] & M32))
        elif n == 'ori':
            self.wr(i['rd'], x[i['rs1']] | (i['imm'] & M32))
        elif n == 'andi':
            self.wr(i['rd'], x[i['rs1']] & (i['imm'] & M32))
        elif n == 'slli':
            self.wr(i['rd'], x[i['rs1']] << i['shamt'])
        elif n == 'srli':
            self.wr(i['rd'], x[i['rs1']] >> i['shamt'])
        elif n == 'srai':
            self.wr(i['rd'], s32(x[i['rs1']]) >> i['shamt'])
        elif n in _ALU:
            self.wr(i['rd'], _ALU[n](x[i['rs1']], x[i['rs2']]))
        else:
            # fence, fence.i, ecall, ebreak, csr*, lr/sc/amo: opaque
            self.events.append(dict(i))
        self.pc = nxt


def _div(a, b):
    a, b = s32(a), s32(b)
    if b == 0:
        return M32
    if a == -(1 << 31) and b == -1:
        return a
    q = abs(a) // abs(b)
    return -q if (a < 0) != (b < 0) else q


def _rem(a, b):
    a, b = s32(a), s32(b)
    if b == 0:
        return a
    if a == -(1 << 31) and b == -1:
        return 0
    r = abs(a) % abs(b)
    return -r if a < 0 else r


_ALU = {
    'add': lambda a, b: a + b,
    'sub': lambda a, b: a - b,
    'sll': lambda a, b: a << (b & 31),
    'slt': lambda a, b: 1 if s32(a) < s32(b) else 0,
    'sltu': lambda a, b: 1 if a < b else 0,
    'xor': lambda a, b: a ^ b,
    'srl': lambda a, b: a >> (b & 31),
    'sra': lambda a, b: s32(a) >> (b & 31),
    'or': lambda a, b: a | b,
    'and': lambda a, b: a & b,
    'mul': lambda a, b: a * b,
    'mulh': lambda a, b: (s32(a) * s32(b)) >> 32,
    'mulhsu': lambda a, b: (s32(a) * b) >> 32,
    'mulhu': lambda a, b: (a * b) >> 32,
    'div': _div,
    'divu': lambda a, b: M32 if b == 0 else a // b,
    'rem': _rem,
    'remu': lambda a, b: a if b == 0 else a % b,
}

CORNERS = [0, 1, 2, 0x7fffffff, 0x80000000, 0xffffffff, 0xfffffffe, 0x80000001, 0x7ffffffe, 0x55555555,
           0xaaaaaaaa, 0xfff, 0x800, 0x7ff, 0x1000, 31, 32, 0xffff0000, 0x0000ffff]


def regfiles(rng, n):
    """n register files: corner-heavy first, then random"""
    out = []
    for k in range(n):
        if k < 4:
            rf = [CORNERS[(k * 7 + r * 3) % len(CORNERS)] for r in range(32)]
        elif k % 2 == 0:
            rf = [rng.choice(CORNERS) for _ in range(32)]
        else:
            rf = [rng.getrandbits(32) for _ in range(32)]
        rf[0] = 0
        out.append(rf)
    return out
