"""Operand formats and documented legal operand sets of all 93 mnemonics (66 base + 27 RVC).

Written from the RISC-V unprivileged spec (field widths, scales, reserved zero values) and from
docs/instruction_reference.rst of bronzebeard (operand order, "MO2"/"MO4"/"MO16" scales).  Shares no code
with bronzebeard.

FORMATS[mnemonic] = tuple of positional operand kinds in *source order*:
  'rd' 'rs1' 'rs2'     any x0..x31
  'rd!0' ...           x1..x31 (RVC forms that reserve x0)
  'rd!02'              x1, x3..x31 (c.lui)
  "rd'" "rs1'" "rs2'"  x8..x15
  'shamt'              0..31 (base) ; 'nzshamt' 1..31 (RVC)
  'uimm5'              0..31 (csrr*i)
  ('imm', lo, hi, scale, nonzero)   integer interval, multiple of scale
  'csr' 'upper' 'cupper' 'succ' 'pred' see below
"""

ABI = ['zero', 'ra', 'sp', 'gp', 'tp', 't0', 't1', 't2', 's0', 's1', 'a0', 'a1', 'a2', 'a3', 'a4', 'a5',
       'a6', 'a7', 's2', 's3', 's4', 's5', 's6', 's7', 's8', 's9', 's10', 's11', 't3', 't4', 't5', 't6']

REG_NAMES = {}
for _n in range(32):
    REG_NAMES['x%d' % _n] = _n
    REG_NAMES[ABI[_n]] = _n
REG_NAMES['fp'] = 8


def regnum(r):
    """The register a spelling names, by the documented register table (number, xN, alias); integers written
    in another base (0x1f) are numbers too.  None when it names no register."""
    if isinstance(r, bool):
        return None
    if isinstance(r, int):
        return r if 0 <= r <= 31 else None
    if isinstance(r, str):
        if r in REG_NAMES:
            return REG_NAMES[r]
        try:
            v = int(r, 0)
        except ValueError:
            return None
        return v if 0 <= v <= 31 else None
    return None


def I(lo, hi, scale=1, nz=False):
    return ('imm', lo, hi, scale, nz)


R3 = ('rd', 'rs1', 'rs2')
FORMATS = {}
for _m in ('add sub sll slt sltu xor srl sra or and mul mulh mulhsu mulhu div divu rem remu').split():
    FORMATS[_m] = R3
for _m in ('slli', 'srli', 'srai'):
    FORMATS[_m] = ('rd', 'rs1', 'shamt')
for _m in ('lb lh lw lbu lhu addi slti sltiu xori ori andi').split():
    FORMATS[_m] = ('rd', 'rs1', I(-2048, 2047))
FORMATS['jalr'] = ('rd', 'rs1', I(-2048, 2047, 2))          # docs: "12-bit MO2 imm"
for _m in ('csrrw', 'csrrs', 'csrrc'):
    FORMATS[_m] = ('rd', 'rs1', 'csr')
for _m in ('csrrwi', 'csrrsi', 'csrrci'):
    FORMATS[_m] = ('rd', 'uimm5', 'csr')
for _m in ('ecall', 'ebreak', 'fence.i', 'c.nop', 'c.ebreak'):
    FORMATS[_m] = ()
for _m in ('sb', 'sh', 'sw'):
    FORMATS[_m] = ('rs1', 'rs2', I(-2048, 2047))
for _m in ('beq bne blt bge bltu bgeu').split():
    FORMATS[_m] = ('rs1', 'rs2', I(-4096, 4095, 2))
FORMATS['lui'] = ('rd', 'upper')
FORMATS['auipc'] = ('rd', 'upper')
FORMATS['jal'] = ('rd', I(-(1 << 20), (1 << 20) - 1, 2))
FORMATS['fence'] = ('succ', 'pred')
for _m in ('sc.w amoswap.w amoadd.w amoxor.w amoand.w amoor.w amomin.w amomax.w amominu.w amomaxu.w').split():
    FORMATS[_m] = R3
FORMATS['lr.w'] = ('rd', 'rs1')
ATOMICS = {m for m in FORMATS if m.endswith('.w')}

FORMATS['c.addi4spn'] = ("rd'", I(0, 1023, 4, True))
FORMATS['c.lw'] = ("rd'", "rs1'", I(0, 127, 4))
FORMATS['c.sw'] = ("rs1'", "rs2'", I(0, 127, 4))
FORMATS['c.addi'] = ('rd!0', I(-32, 31, 1, True))
FORMATS['c.jal'] = (I(-2048, 2047, 2),)
FORMATS['c.j'] = (I(-2048, 2047, 2),)
FORMATS['c.li'] = ('rd!0', I(-32, 31))
FORMATS['c.addi16sp'] = (I(-512, 511, 16, True),)
FORMATS['c.lui'] = ('rd!02', 'cupper')
FORMATS['c.srli'] = ("rd'", 'nzshamt')
FORMATS['c.srai'] = ("rd'", 'nzshamt')
FORMATS['c.andi'] = ("rd'", I(-32, 31))
for _m in ('c.sub', 'c.xor', 'c.or', 'c.and'):
    FORMATS[_m] = ("rd'", "rs2'")
FORMATS['c.beqz'] = ("rs1'", I(-256, 255, 2))
FORMATS['c.bnez'] = ("rs1'", I(-256, 255, 2))
FORMATS['c.slli'] = ('rd!0', 'nzshamt')
FORMATS['c.lwsp'] = ('rd!0', I(0, 255, 4))
FORMATS['c.jr'] = ('rs1!0',)
FORMATS['c.jalr'] = ('rs1!0',)
FORMATS['c.mv'] = ('rd!0', 'rs2!0')
FORMATS['c.add'] = ('rd!0', 'rs2!0')
FORMATS['c.swsp'] = ('rs2', I(0, 255, 4))

BASE = [m for m in FORMATS if not m.startswith('c.')]
RVC = [m for m in FORMATS if m.startswith('c.')]
assert len(BASE) == 66 and len(RVC) == 27, (len(BASE), len(RVC))

# the decoder's field name for each operand position
FIELDS = {}
for _m, _f in FORMATS.items():
    names = []
    for k in _f:
        if isinstance(k, tuple):
            names.append('imm')
        elif k in ('shamt', 'nzshamt'):
            names.append('shamt')
        elif k == 'uimm5':
            names.append('rs1')
        elif k in ('upper', 'cupper'):
            names.append('imm')
        elif k in ('csr', 'succ', 'pred'):
            names.append(k)
        else:
            names.append(k.rstrip("'").replace('!02', '').replace('!0', ''))
    FIELDS[_m] = tuple(names)
# RVC two-operand forms whose first operand is rd/rs1 combined: decoder calls it 'rd'
for _m in ('c.addi', 'c.li', 'c.lui', 'c.srli', 'c.srai', 'c.andi', 'c.sub', 'c.xor', 'c.or', 'c.and', 'c.slli',
           'c.lwsp', 'c.mv', 'c.add', 'c.addi4spn', 'c.lw'):
    assert FIELDS[_m][0] == 'rd'

ACCEPT, REJECT, UNSPEC = 'accept', 'reject', 'unspecified'


def _intval(v):
    """integer operand: the assembler's encoders take ints; fence sets / aq / rl may be text."""
    if isinstance(v, bool):
        return None
    if isinstance(v, int):
        return v
    if isinstance(v, str):
        try:
            return int(v, 0)
        except ValueError:
            return None
    return None


def operand_status(kind, v):
    """-> (status, canonical field value or None)"""
    if isinstance(kind, tuple):
        _, lo, hi, scale, nz = kind
        if not isinstance(v, int) or isinstance(v, bool):
            return REJECT, None
        if v < lo or v > hi or v % scale != 0 or (nz and v == 0):
            return REJECT, None
        return ACCEPT, v
    if kind == 'nzshamt' and isinstance(v, str):
        # RVC shift amounts are immediates (integers); a textual one is not a documented operand type
        n = regnum(v) if v not in REG_NAMES else None
        return (UNSPEC, n) if n else (REJECT, None)
    if kind in ('shamt', 'nzshamt', 'uimm5'):
        n = regnum(v)          # written as a number 0..31 (the assembler also reads register spellings here)
        if n is None:
            return REJECT, None
        if kind == 'nzshamt' and n == 0:
            return REJECT, None
        if isinstance(v, str) and v in REG_NAMES:
            return UNSPEC, n   # `slli x1, x1, t0`: undocumented spelling of a shift amount
        return ACCEPT, n
    if kind == 'csr':
        if not isinstance(v, int) or isinstance(v, bool):
            return REJECT, None
        if 0 <= v <= 0xfff:
            return ACCEPT, v              # a CSR number is a 12-bit address: cycle is 0xc00, mhartid 0xf14
        if -0x800 <= v < 0:
            return UNSPEC, v & 0xfff      # the same field value written as a negative (what older versions required)
        return REJECT, None
    if kind == 'upper':
        if not isinstance(v, int) or isinstance(v, bool):
            return REJECT, None
        if -0x80000 <= v <= 0x7ffff:
            return ACCEPT, v
        if 0x80000 <= v <= 0xfffff:
            return UNSPEC, v - (1 << 20)  # documented only by a code comment
        return REJECT, None
    if kind == 'cupper':
        if not isinstance(v, int) or isinstance(v, bool):
            return REJECT, None
        if v == 0:
            return REJECT, None
        if -32 <= v <= 31:
            return ACCEPT, v
        if 0xfffe0 <= v <= 0xfffff:
            return UNSPEC, v - (1 << 20)
        return REJECT, None
    if kind in ('succ', 'pred'):
        n = _intval(v)
        if n is None or n < 0 or n > 15:
            return REJECT, None
        return ACCEPT, n
    # registers
    n = regnum(v)
    if n is None:
        return REJECT, None
    base = kind.rstrip("'")
    if kind.endswith("'") and not (8 <= n <= 15):
        return REJECT, None
    if base.endswith('!02'):
        if n in (0, 2):
            return REJECT, None
    elif base.endswith('!0'):
        if n == 0:
            return REJECT, None
    return ACCEPT, n


def expected(mnemonic, args, aq=0, rl=0):
    """(status, decoded-dict the spec says these operands name)  status: accept / reject / unspecified.
    `reject` means: not representable, must be refused.  dict is None for reject."""
    fmt = FORMATS[mnemonic]
    if len(args) != len(fmt):
        return REJECT, None
    d = {'name': mnemonic}
    status = ACCEPT
    for kind, fname, v in zip(fmt, FIELDS[mnemonic], args):
        st, cv = operand_status(kind, v)
        if st == REJECT:
            return REJECT, None
        if st == UNSPEC:
            status = UNSPEC
        d[fname] = cv
    if mnemonic in ATOMICS:
        a, r = _intval(aq), _intval(rl)
        if a not in (0, 1) or r not in (0, 1):
            return REJECT, None
        d['aq'], d['rl'] = a, r
        if mnemonic == 'lr.w':
            d['rs2'] = 0
    if mnemonic == 'fence':
        d.update(fm=0, rd=0, rs1=0)
    if mnemonic == 'fence.i':
        d.update(rd=0, rs1=0, imm=0)
    return status, d
