"""python -m bbv Cxx --tier quick|thorough [--replay path]"""
import argparse
import os
import sys


def main():
    ap = argparse.ArgumentParser(prog='bbv')
    ap.add_argument('prop')
    ap.add_argument('--tier', default=os.environ.get('VERIF_TIER') or 'quick', choices=['quick', 'thorough'])
    ap.add_argument('--replay')
    args = ap.parse_args()

    # fixed hash seed for the whole process tree (C16 sweeps it explicitly in subprocesses)
    if os.environ.get('PYTHONHASHSEED') != '0' and not os.environ.get('BBV_NO_REEXEC'):
        env = dict(os.environ, PYTHONHASHSEED='0')
        os.execve(sys.executable, [sys.executable, '-m', 'bbv'] + sys.argv[1:], env)

    sys.dont_write_bytecode = True
    from bbv import core
    prop = args.prop.upper()
    modname = 'bbv.checks.%s' % prop.lower()
    try:
        seed = int(os.environ.get('VERIF_SEED', '0') or 0)
    except ValueError:
        seed = 0
    if args.replay:
        return core.run_replay(modname, args.replay)
    return core.run_check(modname, args.tier, seed)


if __name__ == '__main__':
    sys.exit(main())
