"""Semantic oracle for one source item against the bytes emitted for it (used by C03 C04 C05 C08 C20).

Real instructions: the chunk must decode (RVC forms expanded by the spec's "expands to" column) to the
instruction the line named, with operand values evaluated over the *final* label offsets; when the decoded
form differs, both are executed on the reference ISS and a problem is reported only with a concrete machine
state on which they differ.  Pseudo-instructions: the chunk is executed and compared with the effect the
instruction reference documents.
"""
import random

from .refmodel import rv, iss, operands as O
from .gen import program as P

M32 = 0xffffffff
BRANCH_COND = {
    'beqz': lambda a, b: a == 0, 'bnez': lambda a, b: a != 0, 'blez': lambda a, b: iss.s32(a) <= 0,
    'bgez': lambda a, b: iss.s32(a) >= 0, 'bltz': lambda a, b: iss.s32(a) < 0, 'bgtz': lambda a, b: iss.s32(a) > 0,
    'bgt': lambda a, b: iss.s32(a) > iss.s32(b), 'ble': lambda a, b: iss.s32(a) <= iss.s32(b),
    'bgtu': lambda a, b: a > b, 'bleu': lambda a, b: a <= b,
}
UNARY = {
    'mv': lambda a: a, 'not': lambda a: (~a) & M32, 'neg': lambda a: (-a) & M32, 'seqz': lambda a: 1 if a == 0 else 0,
    'snez': lambda a: 1 if a != 0 else 0, 'sltz': lambda a: 1 if iss.s32(a) < 0 else 0, 'sgtz': lambda a: 1 if iss.s32(a) > 0 else 0,
}
PSEUDOS = ['nop', 'li', 'mv', 'not', 'neg', 'seqz', 'snez', 'sltz', 'sgtz', 'beqz', 'bnez', 'blez', 'bgez', 'bltz', 'bgtz',
           'bgt', 'ble', 'bgtu', 'bleu', 'j', 'jal', 'jr', 'jalr', 'ret', 'call', 'tail', 'fence']
assert len(PSEUDOS) == 27


def decode_chunk(data):
    """-> list of (size, raw, base-form dict) or a string describing why it is not a legal instruction sequence"""
    parts = []
    i = 0
    while i < len(data):
        if len(data) - i < 2:
            return 'trailing byte in instruction chunk %s' % data.hex()
        h = data[i] | (data[i + 1] << 8)
        if h & 3 != 3:
            k, ci = rv.decode16(h)
            if k != 'legal':
                return '16-bit encoding %#06x is %s, not a legal RV32C instruction' % (h, k)
            parts.append((2, h, rv.expand16(ci), ci))
            i += 2
        else:
            if len(data) - i < 4:
                return 'truncated 32-bit instruction in chunk %s' % data.hex()
            w = int.from_bytes(data[i:i + 4], 'little')
            d = rv.decode32(w)
            if d is None:
                return '32-bit word %#010x is not a valid RV32IMA_Zicsr_Zifencei instruction' % w
            parts.append((4, w, d, None))
            i += 4
    return parts


def expected_insn(it, labels, consts, here):
    """the base instruction a real-instruction item names (RVC items: their expansion)"""
    m = it['m']
    fmt = O.FORMATS[m]
    fields = O.FIELDS[m]
    d = {'name': m}
    for kind, fname, op in zip(fmt, fields, it['ops']):
        if isinstance(kind, tuple) or kind in ('csr', 'upper', 'cupper', 'succ', 'pred'):
            v = P.ev(op, labels, consts, here)
            if kind == 'csr':
                v &= 0xfff
            elif kind in ('upper', 'cupper'):
                v = P.sx(v, 20)
            d[fname] = v
        elif kind in ('shamt', 'nzshamt', 'uimm5'):
            d[fname] = P.ev(op, labels, consts, here)
        else:
            d[fname] = P.regno(op, consts)
    if m in O.ATOMICS:
        d['aq'] = it.get('aq', 0)
        d['rl'] = it.get('rl', 0)
        if m == 'lr.w':
            d['rs2'] = 0
    if m == 'fence':
        d.update(fm=0, rd=0, rs1=0)
    if m == 'fence.i':
        d.update(rd=0, rs1=0, imm=0)
    if m.startswith('c.'):
        d = rv.expand16(d)
    return d


def run_dict(regs, pc, d, size):
    m = iss.Machine(regs, pc=pc)
    m.execute(d, size)
    return m


def state_of(m):
    return (tuple(m.x), m.pc, tuple(m.accesses), tuple(tuple(sorted(e.items())) for e in m.events))


def equivalent(d_act, d_exp, size, pc, rng, n=64):
    """architectural equivalence of two decoded base instructions at the same pc / size, by execution.
    -> None if no distinguishing state was found, else a description of one."""
    for rf in iss.regfiles(rng, n):
        a = run_dict(rf, pc, d_act, size)
        b = run_dict(rf, pc, d_exp, size)
        if state_of(a) != state_of(b):
            diff = [(i, a.x[i], b.x[i]) for i in range(32) if a.x[i] != b.x[i]]
            return 'from x=%s..., emitted %r gives pc=%#x regs%s acc=%s; named %r gives pc=%#x acc=%s' % (
                [hex(v) for v in rf[:4]], d_act, a.pc, [(i, hex(x), hex(y)) for i, x, y in diff][:3], a.accesses, d_exp, b.pc, b.accesses)
    return None


def check_inst(it, data, here, labels, consts, rng):
    """-> (problems, info) for a real-instruction item"""
    parts = decode_chunk(data)
    if isinstance(parts, str):
        return [parts], {}
    if len(parts) != 1:
        return ['instruction line emitted %d instructions (%s)' % (len(parts), data.hex())], {}
    size, raw, d, ci = parts[0]
    exp = expected_insn(it, labels, consts, here)
    info = {'size': size, 'rvc': ci['name'] if ci else None, 'structural': d == exp}
    if d == exp:
        return [], info
    why = equivalent(d, exp, size, here, rng)
    if why:
        return ['emitted %s does not mean what the line named: %s' % (data.hex(), why)], info
    return [], info


PAIRS = [(0, 0), (1, 0), (0xffffffff, 0), (0x80000000, 0), (0x7fffffff, 0), (0, 1), (5, 5), (0x80000000, 1), (1, 0x80000000),
         (0xffffffff, 1), (1, 0xffffffff), (2, 3), (3, 2), (0, 0xffffffff), (0x80000000, 0x7fffffff), (0x7fffffff, 0x80000000)]


def check_pseudo(it, data, here, labels, consts, rng, out, nregs=6, base=0):
    """execute the chunk from several register files and compare with the documented effect.
    `out` is the whole binary (the chunk lives at [here, here+len(data)))."""
    m = it['m']
    ops = it['ops']
    end = here + len(data)
    parts = decode_chunk(data)
    if isinstance(parts, str):
        return [parts], {}
    info = {'size': len(data), 'n_insns': len(parts), 'forms': [p[3]['name'] if p[3] else p[2]['name'] for p in parts]}
    if len(parts) > 2:
        return ['pseudo-instruction emitted %d instructions' % len(parts)], info
    problems = []
    taken = set()
    labels = dict(consts, **labels) if any('t' in o and o['t'] in consts for o in ops if isinstance(o, dict)) else labels
    opregs = [P.regno(o, consts) for o in ops if 'r' in o or 'cr' in o]
    k0 = rng.randrange(len(PAIRS))
    for k, rf in enumerate(iss.regfiles(rng, nregs)):
        # make conditions interesting: force the operand registers to corner pairs (both branch outcomes)
        if opregs and (m in BRANCH_COND or m in UNARY):
            a, b = PAIRS[(k0 + k) % len(PAIRS)]
            rf = list(rf)
            rf[opregs[0]] = a
            if len(opregs) > 1:
                rf[opregs[1]] = b
            rf[0] = 0
        mach = iss.Machine(rf, pc=here, code=out)
        pre = list(mach.x)
        steps = 0
        # at most one step per emitted instruction; a transfer back into the chunk (jump to itself) ends it too
        seen_pcs = set()
        while here <= mach.pc < end and steps < len(parts) and mach.pc not in seen_pcs and mach.trap is None:
            seen_pcs.add(mach.pc)
            if mach.step() is None:
                break
            steps += 1
        if mach.trap:
            problems.append('trap while executing: ' + mach.trap)
            break
        # ---- documented effect
        exp_regs = list(pre)
        exp_pc = end
        allowed_extra = set()
        exp_events = []
        if m == 'nop':
            pass
        elif m == 'li':
            rd = P.regno(ops[0], consts)
            v = P.ev(ops[1], labels, consts, here) & M32
            if rd:
                exp_regs[rd] = v
        elif m in UNARY:
            rd, rs = P.regno(ops[0], consts), P.regno(ops[1], consts)
            if rd:
                exp_regs[rd] = UNARY[m](pre[rs])
        elif m in BRANCH_COND:
            if len(ops) == 3:
                a, b = pre[P.regno(ops[0], consts)], pre[P.regno(ops[1], consts)]
            else:
                a, b = pre[P.regno(ops[0], consts)], 0
            tk = bool(BRANCH_COND[m](a, b))
            taken.add(tk)
            if tk:
                exp_pc = labels[ops[-1]['t']]
        elif m == 'j':
            exp_pc = labels[ops[0]['t']]
        elif m == 'jal':
            exp_regs[1] = end & M32
            exp_pc = labels[ops[0]['t']]
        elif m == 'jr':
            exp_pc = pre[P.regno(ops[0], consts)] & ~1
        elif m == 'jalr':
            exp_pc = pre[P.regno(ops[0], consts)] & ~1
            exp_regs[1] = end & M32
        elif m == 'ret':
            exp_pc = pre[1] & ~1
        elif m == 'call':
            exp_regs[1] = end & M32
            exp_pc = labels[ops[0]['t']]
        elif m == 'tail':
            exp_pc = labels[ops[0]['t']]
            allowed_extra = {6}
        elif m == 'fence':
            exp_events = [{'name': 'fence', 'fm': 0, 'pred': 15, 'succ': 15, 'rd': 0, 'rs1': 0}]
        else:
            raise KeyError(m)
        bad = []
        if mach.pc != (exp_pc & M32):
            bad.append('pc=%#x, documented %#x' % (mach.pc, exp_pc & M32))
        for r in range(32):
            if mach.x[r] != exp_regs[r] and r not in allowed_extra:
                bad.append('x%d=%#x, documented %#x' % (r, mach.x[r], exp_regs[r]))
        if mach.accesses:
            bad.append('memory accessed: %r' % (mach.accesses,))
        if [dict(e) for e in mach.events] != exp_events:
            bad.append('events %r, documented %r' % (mach.events, exp_events))
        if bad:
            problems.append('%s executed from x%s=%s: %s' % (P.r_item(it), [P.regno(o, consts) for o in ops if 'r' in o or 'cr' in o],
                            [hex(pre[P.regno(o, consts)]) for o in ops if 'r' in o or 'cr' in o], '; '.join(bad[:3])))
            break
    info['taken'] = taken
    return problems, info
