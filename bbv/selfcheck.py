"""setup_cmd: offline self-check of the framework.  Nothing is installed or fetched.

1. every check module imports;  2. the reference decoder / ISS pass hand-computed vectors from the spec;
3. (if llvm-mc-14 is present) the reference decoders are cross-validated against LLVM's disassembler:
   all 49,152 non-`11` halfwords and a structured sample of 32-bit words.  LLVM only validates the
   monitor's model; it never decides a property.
"""
import importlib
import os
import random
import re
import shutil
import subprocess
import sys

from .refmodel import rv, iss, operands


def fmt16(i):
    n = i['name']
    r = lambda k: 'x%d' % i[k]  # noqa
    if n in ('c.nop', 'c.ebreak'):
        return n
    if n == 'c.addi4spn':
        return '%s %s, x2, %d' % (n, r('rd'), i['imm'])
    if n == 'c.lw':
        return '%s %s, %d(%s)' % (n, r('rd'), i['imm'], r('rs1'))
    if n == 'c.sw':
        return '%s %s, %d(%s)' % (n, r('rs2'), i['imm'], r('rs1'))
    if n in ('c.addi', 'c.li', 'c.andi'):
        return '%s %s, %d' % (n, r('rd'), i['imm'])
    if n == 'c.lui':
        return '%s %s, %d' % (n, r('rd'), i['imm'] & 0xfffff if i['imm'] < 0 else i['imm'])
    if n in ('c.jal', 'c.j'):
        return '%s %d' % (n, i['imm'])
    if n == 'c.addi16sp':
        return '%s x2, %d' % (n, i['imm'])
    if n in ('c.srli', 'c.srai', 'c.slli'):
        return '%s %s, %d' % (n, r('rd'), i['shamt'])
    if n in ('c.sub', 'c.xor', 'c.or', 'c.and', 'c.mv', 'c.add'):
        return '%s %s, %s' % (n, r('rd'), r('rs2'))
    if n in ('c.beqz', 'c.bnez'):
        return '%s %s, %d' % (n, r('rs1'), i['imm'])
    if n == 'c.lwsp':
        return '%s %s, %d(x2)' % (n, r('rd'), i['imm'])
    if n == 'c.swsp':
        return '%s %s, %d(x2)' % (n, r('rs2'), i['imm'])
    if n in ('c.jr', 'c.jalr'):
        return '%s %s' % (n, r('rs1'))
    raise KeyError(n)


def fmt32(i):
    n = i['name']
    x = lambda k: 'x%d' % i[k]  # noqa
    if n in ('ecall', 'ebreak', 'fence.i'):
        return n
    if n in ('lui', 'auipc'):
        return '%s %s, %d' % (n, x('rd'), i['imm'] & 0xfffff)
    if n == 'jal':
        return '%s %s, %d' % (n, x('rd'), i['imm'])
    if n in ('jalr', 'lb', 'lh', 'lw', 'lbu', 'lhu'):
        return '%s %s, %d(%s)' % (n, x('rd'), i['imm'], x('rs1'))
    if n in ('sb', 'sh', 'sw'):
        return '%s %s, %d(%s)' % (n, x('rs2'), i['imm'], x('rs1'))
    if n in ('beq', 'bne', 'blt', 'bge', 'bltu', 'bgeu'):
        return '%s %s, %s, %d' % (n, x('rs1'), x('rs2'), i['imm'])
    if n in ('addi', 'slti', 'sltiu', 'xori', 'ori', 'andi'):
        return '%s %s, %s, %d' % (n, x('rd'), x('rs1'), i['imm'])
    if n in ('slli', 'srli', 'srai'):
        return '%s %s, %s, %d' % (n, x('rd'), x('rs1'), i['shamt'])
    if n in iss._ALU:
        return '%s %s, %s, %s' % (n, x('rd'), x('rs1'), x('rs2'))
    if n == 'fence':
        return None     # LLVM prints fence sets symbolically; compared separately
    if n.startswith('csrr'):
        if n.endswith('i'):
            return '%s %s, %d, %d' % (n, x('rd'), i['csr'], i['rs1'])
        return '%s %s, %d, %s' % (n, x('rd'), i['csr'], x('rs1'))
    if n.endswith('.w'):
        suf = {(0, 0): '', (1, 0): '.aq', (0, 1): '.rl', (1, 1): '.aqrl'}[(i['aq'], i['rl'])]
        if n == 'lr.w':
            return '%s%s %s, (%s)' % (n, suf, x('rd'), x('rs1'))
        return '%s%s %s, %s, (%s)' % (n, suf, x('rd'), x('rs2'), x('rs1'))
    raise KeyError(n)


def norm(s):
    return re.sub(r'\s+', '', s or '')


def llvm_disasm(byte_lines):
    inp = ''.join(byte_lines)
    p = subprocess.run(['llvm-mc-14', '-triple=riscv32', '-mattr=+m,+a,+c', '--disassemble', '-M', 'no-aliases', '-M', 'numeric'],
                       input=inp, capture_output=True, text=True, timeout=600)
    bad = set(int(m.group(1)) for m in re.finditer(r'<stdin>:(\d+):\d+: warning: invalid instruction encoding', p.stderr))
    lines = [l.strip() for l in p.stdout.splitlines() if l.strip() and not l.strip().startswith('.text')]
    it = iter(lines)
    res = []
    for idx in range(1, len(byte_lines) + 1):
        res.append(None if idx in bad else next(it, None))
    return res


def validate_rvc():
    hs = [h for h in range(65536) if h & 3 != 3]
    res = llvm_disasm(['0x%02x 0x%02x\n' % (h & 0xff, h >> 8) for h in hs])
    mism = []
    legal = 0
    lenient = 0
    for h, l in zip(hs, res):
        k, i = rv.decode16(h)
        if k == 'legal':
            legal += 1
            if l is None or norm(l) != norm(fmt16(i)):
                mism.append((hex(h), fmt16(i), l))
        elif l is not None and k in ('hint', 'reserved'):
            lenient += 1      # LLVM disassembles some HINT / reserved code points; the spec text classifies them
        elif l is not None and k == 'float':
            mism.append((hex(h), 'float class', l))
    return legal, lenient, mism


def validate_rv32(n=200000, seed=1):
    rng = random.Random(seed)
    words = []
    opcodes = [0x37, 0x17, 0x6f, 0x67, 0x63, 0x03, 0x23, 0x13, 0x33, 0x0f, 0x73, 0x2f]
    for k in range(n):
        w = rng.getrandbits(32)
        w = (w & ~0x7f) | rng.choice(opcodes)
        if k % 3 == 0:
            # bias funct7 towards the defined values
            w = (w & ~(0x7f << 25)) | (rng.choice([0, 0x20, 1, 0, 0x08, 0x0c, 0x04]) << 25)
        words.append(w)
    res = llvm_disasm(['0x%02x 0x%02x 0x%02x 0x%02x\n' % (w & 0xff, (w >> 8) & 0xff, (w >> 16) & 0xff, w >> 24) for w in words])
    mism = []
    valid = 0
    for w, l in zip(words, res):
        d = rv.decode32(w)
        if d is None:
            m = re.match(r'(slli|srli|srai)\s+x\d+, x\d+, (\d+)$', l or '')
            if m and int(m.group(2)) >= 32:
                continue    # LLVM leniency: shamt[5]=1 is reserved on RV32 (spec 2.4), LLVM prints the RV64 form
            if l is not None and not l.startswith(('csrr', 'fence', 'unimp', 'sfence', 'wfi', 'mret', 'sret', 'uret', 'dret')):
                # LLVM knows system instructions outside RV32IMA_Zicsr_Zifencei; anything else must be invalid for it too
                mism.append((hex(w), None, l))
            continue
        t = fmt32(d)
        if t is None:
            continue
        valid += 1
        if d['name'] == 'fence.i' and (d['rd'] or d['rs1'] or d['imm']):
            continue
        if d['name'].startswith('csrr') or d['name'] in ('ecall', 'ebreak'):
            # LLVM prints known CSR numbers by name
            if l is None:
                mism.append((hex(w), t, l))
            continue
        if l is None or norm(l) != norm(t):
            mism.append((hex(w), t, l))
    return valid, mism


def spec_vectors():
    """hand-computed vectors from the unprivileged spec / common knowledge, independent of bronzebeard"""
    v = [
        (0x00000013, {'name': 'addi', 'rd': 0, 'rs1': 0, 'imm': 0}),           # canonical nop
        (0x00008067, {'name': 'jalr', 'rd': 0, 'rs1': 1, 'imm': 0}),           # ret
        (0xfff00513, {'name': 'addi', 'rd': 10, 'rs1': 0, 'imm': -1}),        # li a0, -1
        (0x000012b7, {'name': 'lui', 'rd': 5, 'imm': 1}),
        (0x0000006f, {'name': 'jal', 'rd': 0, 'imm': 0}),
        (0xfe000ee3, {'name': 'beq', 'rs1': 0, 'rs2': 0, 'imm': -4}),
        (0x00112623, {'name': 'sw', 'rs1': 2, 'rs2': 1, 'imm': 12}),
        (0x0ff0000f, {'name': 'fence', 'fm': 0, 'pred': 15, 'succ': 15, 'rd': 0, 'rs1': 0}),
        (0x00000073, {'name': 'ecall'}),
        (0x00100073, {'name': 'ebreak'}),
        (0x30529073, {'name': 'csrrw', 'rd': 0, 'rs1': 5, 'csr': 0x305}),     # csrw mtvec, t0
        (0x02b50533, {'name': 'mul', 'rd': 10, 'rs1': 10, 'rs2': 11}),
        (0x100522af, {'name': 'lr.w', 'rd': 5, 'rs1': 10, 'rs2': 0, 'aq': 0, 'rl': 0}),
    ]
    bad = [(hex(w), rv.decode32(w), d) for w, d in v if rv.decode32(w) != d]
    v16 = [
        (0x0001, ('legal', {'name': 'c.nop'})),
        (0x8082, ('legal', {'name': 'c.jr', 'rs1': 1})),          # ret
        (0x9002, ('legal', {'name': 'c.ebreak'})),
        (0x0000, ('reserved', None)),
        (0x4501, ('legal', {'name': 'c.li', 'rd': 10, 'imm': 0})),
        (0xa001, ('legal', {'name': 'c.j', 'imm': 0})),
        (0x1141, ('legal', {'name': 'c.addi', 'rd': 2, 'imm': -16})),
        (0xc606, ('legal', {'name': 'c.swsp', 'rs2': 1, 'imm': 12})),
    ]
    bad += [(hex(h), rv.decode16(h), d) for h, d in v16 if rv.decode16(h) != d]
    # ISS: division corner cases of chapter 7, sign handling of shifts and compares
    m = iss.Machine([0] * 32)
    tests = [('div', 7, 0, 0xffffffff), ('divu', 7, 0, 0xffffffff), ('rem', 7, 0, 7), ('remu', 7, 0, 7),
             ('div', 0x80000000, 0xffffffff, 0x80000000), ('rem', 0x80000000, 0xffffffff, 0),
             ('div', 0xfffffff9, 2, 0xfffffffd), ('rem', 0xfffffff9, 2, 0xffffffff),
             ('mulh', 0x80000000, 0x80000000, 0x40000000), ('mulhu', 0xffffffff, 0xffffffff, 0xfffffffe),
             ('mulhsu', 0xffffffff, 0xffffffff, 0xffffffff), ('sra', 0x80000000, 31, 0xffffffff), ('srl', 0x80000000, 31, 1),
             ('slt', 0xffffffff, 0, 1), ('sltu', 0xffffffff, 0, 0), ('sll', 1, 33, 2)]
    for name, a, b, want in tests:
        m.x[1], m.x[2] = a, b
        m.execute({'name': name, 'rd': 3, 'rs1': 1, 'rs2': 2}, 4)
        if m.x[3] != want:
            bad.append((name, hex(a), hex(b), hex(m.x[3]), hex(want)))
    return bad


def main():
    ok = True
    here = os.path.dirname(os.path.abspath(__file__))
    mods = sorted(f[:-3] for f in os.listdir(os.path.join(here, 'checks')) if re.fullmatch(r'c\d\d\.py', f))
    for mname in mods:
        importlib.import_module('bbv.checks.' + mname)
    print('selfcheck: %d check modules import' % len(mods))
    assert len(operands.BASE) == 66 and len(operands.RVC) == 27
    bad = spec_vectors()
    print('selfcheck: reference decoder / ISS spec vectors: %s' % ('ok' if not bad else 'MISMATCH %r' % bad[:3]))
    ok &= not bad
    # decode16/expand16 consistency: every legal halfword expands to a valid base instruction
    n = 0
    for h in range(65536):
        k, i = rv.decode16(h)
        if k == 'legal':
            rv.expand16(i)
            n += 1
    print('selfcheck: %d legal RV32C halfwords, all expand' % n)
    ok &= n == 28461
    if shutil.which('llvm-mc-14'):
        legal, lenient, mism = validate_rvc()
        print('selfcheck: RVC decoder vs llvm-mc-14: %d legal halfwords compared, %d disagreements (%d hint/reserved code points LLVM is lenient on)' % (legal, len(mism), lenient))
        if mism:
            print('  ', mism[:5])
        ok &= not mism
        valid, mism = validate_rv32()
        print('selfcheck: RV32 decoder vs llvm-mc-14: %d valid words compared, %d disagreements' % (valid, len(mism)))
        if mism:
            print('  ', mism[:5])
        ok &= not mism
    else:
        print('selfcheck: llvm-mc-14 not present, LLVM cross-validation of the reference decoder skipped')
    try:
        from . import core
        asm = core.load_asm()
        print('selfcheck: target imports from %s' % asm.__file__)
    except Exception as e:  # noqa
        print('selfcheck: WARNING target cannot be imported now: %r (checks will report INCONCLUSIVE)' % (e,))
    print('selfcheck: %s' % ('OK' if ok else 'FAILED'))
    return 0 if ok else 1


if __name__ == '__main__':
    sys.exit(main())
