"""Common machinery: target loading, sharded execution, three-valued verdicts, evidence,
known findings, replay files.  See DESIGN.md section 3.3.

Exit codes: 0 held on what was observed / 1 VIOLATION / 2 INCONCLUSIVE.
"""
import concurrent.futures as cf
import hashlib
import importlib
import json
import os
import sys
import time
import traceback
from collections import Counter

VERIF_DIR = os.path.dirname(os.path.dirname(os.path.abspath(__file__)))
GUARD = 'BRONZEBEARD_VERIF'
NCPU = min(16, os.cpu_count() or 1)


def repo_dir():
    return os.path.abspath(os.environ.get('VERIF_REPO', '/repo'))


# --------------------------------------------------------------------------------------
# target loading: always from the current working tree of $VERIF_REPO, never cached

_ASM = None
_ASM_O = None
_NOASSERT = False


def select_mode(noassert):
    """which variant of the target load_asm() hands out in this process from now on: the module as imported, or the same
    source as `python -O` runs it (assert statements removed, __debug__ false).  An environment dimension like the hash seed."""
    global _NOASSERT
    _NOASSERT = bool(noassert)


def _load_asm_noassert():
    global _ASM_O
    if _ASM_O is None:
        import types
        base = load_asm_plain()
        path = base.__file__
        with open(path) as f:
            code = compile(f.read(), path, 'exec', optimize=1, dont_inherit=True)
        mod = types.ModuleType('bronzebeard.asm')
        mod.__file__ = path
        mod.__package__ = 'bronzebeard'
        exec(code, mod.__dict__)
        _ASM_O = mod
    return _ASM_O


def load_asm(fresh=False):
    """the target module in the selected mode (see select_mode)"""
    if _NOASSERT and not fresh:
        return _load_asm_noassert()
    return load_asm_plain(fresh)


def load_asm_plain(fresh=False):
    """Import bronzebeard.asm from the repository working tree (not from site-packages)."""
    global _ASM
    if _ASM is not None and not fresh:
        return _ASM
    sys.dont_write_bytecode = True
    os.environ[GUARD] = '1'
    repo = repo_dir()
    if sys.path[0] != repo:
        sys.path.insert(0, repo)
    for name in [n for n in sys.modules if n == 'bronzebeard' or n.startswith('bronzebeard.')]:
        del sys.modules[name]
    importlib.invalidate_caches()
    asm = importlib.import_module('bronzebeard.asm')
    here = os.path.realpath(asm.__file__)
    if not here.startswith(os.path.realpath(repo) + os.sep):
        raise RuntimeError('bronzebeard.asm imported from %s, expected under %s' % (here, repo))
    _ASM = asm
    return asm


# --------------------------------------------------------------------------------------
# partial results ("acc" dicts) produced by shards and merged by the runner

def new_acc():
    return {'n': 0, 'nt': 0, 'ntkeys': set(), 'ctr': Counter(), 'seen': {}, 'samples': [],
            'viol': [], 'nviol': 0, 'truncated': 0, 'notes': []}


MAX_VIOL_PER_SHARD = 25
MAX_SAMPLES = 6


def add_viol(acc, what, case, detail=None, key=None):
    acc['nviol'] += 1
    if _NOASSERT and isinstance(case, dict):
        case = dict(case, _noassert=True)
        what += ' [target compiled as python -O does: assert statements removed]'
    if len(acc['viol']) < MAX_VIOL_PER_SHARD:
        acc['viol'].append({'what': what, 'case': case, 'detail': detail or {}, 'key': key})


def add_sample(acc, sample):
    """keep a few samples, at most 3 per sample 'kind' (first key of the dict) so that all kinds show"""
    kind = next(iter(sample)) if isinstance(sample, dict) and sample else '?'
    same = sum(1 for s in acc['samples'] if (next(iter(s)) if isinstance(s, dict) and s else '?') == kind)
    if same < 3 and len(acc['samples']) < MAX_SAMPLES * 3:
        acc['samples'].append(sample)


def see(acc, name, value):
    acc['seen'].setdefault(name, set()).add(value)


def ckey(*parts):
    """Compact key of a case for distinct counting (stable across processes)."""
    h = hashlib.blake2b(repr(parts).encode(), digest_size=8).digest()
    return int.from_bytes(h, 'little')


def merge(into, part):
    into['n'] += part['n']
    into['nt'] += part['nt']
    into['ntkeys'] |= part['ntkeys']
    into['ctr'].update(part['ctr'])
    for k, v in part['seen'].items():
        into['seen'].setdefault(k, set()).update(v)
    for s in part['samples']:
        add_sample(into, s)
    into['nviol'] += part['nviol']
    into['viol'].extend(part['viol'])
    into['truncated'] += part['truncated']
    into['notes'].extend(part['notes'])


# --------------------------------------------------------------------------------------
# known findings

def known_findings(prop):
    """-> ({key: text} for `known:` lines of this property, [fixed lines])"""
    known, fixed = {}, []
    path = os.path.join(VERIF_DIR, 'KNOWN_FINDINGS.txt')
    if not os.path.exists(path):
        return known, fixed
    for line in open(path, encoding='utf-8'):
        line = line.strip()
        if not line or line.startswith('#'):
            continue
        kind, _, rest = line.partition(':')
        toks = rest.split()
        fields = dict(t.split('=', 1) for t in toks if '=' in t and t.split('=', 1)[0] in ('property', 'key'))
        if fields.get('property') != prop:
            continue
        if kind == 'known':
            text = ' '.join(t for t in toks if not (t.startswith('property=') or t.startswith('key=')))
            known[fields.get('key', '?')] = text
        elif kind == 'fixed':
            fixed.append(rest.strip())
    return known, fixed


# --------------------------------------------------------------------------------------
# shard execution

def _worker_run(modname, shard, deadline, cover=False, noassert=False):
    try:
        select_mode(noassert)
        mod = importlib.import_module(modname)
        if cover:
            from . import monitors
            with monitors.FunctionCoverage(repo_dir()) as fc:
                acc = mod.run_shard(shard, deadline)
            for name in fc.seen:
                see(acc, 'target_functions_entered', name)
        else:
            acc = mod.run_shard(shard, deadline)
        acc['ctr']['shards_run_on_target_without_asserts'] += bool(noassert)
        return ('ok', acc)
    except BaseException:  # noqa - a crashing shard must surface as inconclusive, never as held
        return ('crash', traceback.format_exc())


def _worker_init():
    # make every worker import the target once, from the working tree
    try:
        load_asm()
    except BaseException:
        pass


class Outcome:
    def __init__(self):
        self.acc = new_acc()
        self.inconclusive = []


def run_shards(modname, shards, budget_s, workers=NCPU, need_asm=True):
    """Run shards in a process pool.  A shard crash / pool break / watchdog -> inconclusive."""
    out = Outcome()
    deadline = time.time() + budget_s
    hard = time.time() + budget_s * 2 + 120          # generous wall-clock watchdog
    if workers <= 1 or len(shards) <= 1:
        for sh in shards:
            st, res = _worker_run(modname, sh, deadline)
            if st == 'ok':
                merge(out.acc, res)
            else:
                out.inconclusive.append('shard crashed: ' + res.strip().splitlines()[-1])
                out.acc['notes'].append(res)
        return out
    try:
        with cf.ProcessPoolExecutor(max_workers=workers, initializer=_worker_init if need_asm else None) as ex:
            # every 7th shard also records which functions of the target it entered (P8, evidence only)
            # ... and every 5th shard runs on the target as `python -O` would run it
            futs = [ex.submit(_worker_run, modname, sh, deadline, i % 7 == 0, i % 5 == 3) for i, sh in enumerate(shards)]
            pending = set(futs)
            while pending:
                done, pending = cf.wait(pending, timeout=max(1.0, hard - time.time()),
                                        return_when=cf.FIRST_COMPLETED)
                for f in done:
                    st, res = f.result()
                    if st == 'ok':
                        merge(out.acc, res)
                    else:
                        out.inconclusive.append('shard crashed: ' + res.strip().splitlines()[-1])
                        out.acc['notes'].append(res)
                if time.time() > hard and pending:
                    out.inconclusive.append('watchdog: %d shards still running after %ds' % (len(pending), int(budget_s * 2 + 120)))
                    for f in pending:
                        f.cancel()
                    ex.shutdown(wait=False, cancel_futures=True)
                    break
    except cf.process.BrokenProcessPool as e:
        out.inconclusive.append('worker process died: %r' % (e,))
    return out


# --------------------------------------------------------------------------------------
# verdict, evidence, replay

def _jsonable(x):
    if isinstance(x, (set, frozenset)):
        return sorted(_jsonable(i) for i in x)
    if isinstance(x, (bytes, bytearray)):
        return bytes(x).hex()
    if isinstance(x, dict):
        return {str(k): _jsonable(v) for k, v in x.items()}
    if isinstance(x, (list, tuple)):
        return [_jsonable(i) for i in x]
    if isinstance(x, (int, float, str, bool)) or x is None:
        return x
    return repr(x)


def write_replay(prop, viol, tier, seed):
    d = os.path.join(os.environ.get('BBV_REPLAY_DIR') or os.path.join(VERIF_DIR, 'replays'), prop)
    os.makedirs(d, exist_ok=True)
    body = _jsonable({'property': prop, 'what': viol['what'], 'case': viol['case'],
                      'detail': viol['detail'], 'tier': tier, 'seed': seed, 'repo': repo_dir()})
    digest = hashlib.sha1(json.dumps([body['what'], body['case']], sort_keys=True).encode()).hexdigest()[:16]
    path = os.path.join(d, digest + '.json')
    with open(path, 'w') as f:
        json.dump(body, f, indent=1, sort_keys=True)
    return path


def _safe_classifier(mod):
    """the optional module-level classify(violation) -> key; a classifier that cannot judge a violation leaves it unclassified (= real)"""
    f = getattr(mod, 'classify', None)
    if f is None:
        return None

    def g(v):
        try:
            return f(v)
        except Exception:
            return None
    return g


def conclude(mod, out, tier, seed, t0, extra_cov=None, exhaustive=False):
    """Classify violations, evaluate gates, write evidence, print verdict lines, return exit code."""
    prop = mod.ID
    acc = out.acc
    known, _fixed = known_findings(prop)
    classify = _safe_classifier(mod)
    known_hits = Counter()
    real = []
    for v in acc['viol']:
        key = v.get('key') or (classify(v) if classify else None)
        if key is not None and key in known:
            known_hits[key] += 1
        else:
            real.append(v)
    # violations beyond the per-shard cap were not individually classified: if any of the kept ones is
    # real the run is a violation anyway; if all kept ones are known, the overflow is attributed to them.
    gates = list(out.inconclusive)
    if hasattr(mod, 'gates'):
        try:
            gates.extend(mod.gates(acc, tier))
        except Exception:
            gates.append('gate evaluation crashed: ' + traceback.format_exc().strip().splitlines()[-1])
    nontrivial = acc['nt'] + len(acc['ntkeys'])
    if acc['n'] == 0:
        gates.append('no case was executed')
    if nontrivial < 2:
        gates.append('fewer than 2 distinct non-trivial cases')

    cov = {
        'evaluations': acc['n'],
        'distinct_nontrivial': nontrivial,
        'rule': mod.RULE,
        'samples': _jsonable(acc['samples']) or ['(none)'],
        'exhaustive': bool(exhaustive and not acc['truncated'] and not gates),
        'counters': {k: acc['ctr'][k] for k in sorted(acc['ctr'])},
        'observed_sets': {k: (sorted(map(str, v)) if len(v) <= 200 else {'count': len(v)}) for k, v in sorted(acc['seen'].items())},
        'shards_truncated_by_time': acc['truncated'],
        'gates_failed': gates,
        'known_finding_witnesses': dict(known_hits),
        'repo': repo_dir(),
    }
    if extra_cov:
        cov.update(extra_cov)
    verdict = 'violated' if real else ('inconclusive' if gates else 'held')
    ev = {
        'property_id': prop, 'tier': tier, 'seed': seed, 'level': mod.LEVEL, 'coverage': cov,
        'assumptions': list(getattr(mod, 'ASSUMPTIONS', [])),
        'wall_s': round(time.time() - t0, 3), 'violations': len(real) if real else 0,
        'verdict': verdict,
    }
    evdir = os.environ.get('BBV_EVIDENCE_DIR') or os.path.join(VERIF_DIR, 'evidence')   # mutation self-tests redirect this
    os.makedirs(evdir, exist_ok=True)
    tmp = os.path.join(evdir, prop + '.json.tmp')
    with open(tmp, 'w') as f:
        json.dump(ev, f, indent=1, sort_keys=True)
    os.replace(tmp, os.path.join(evdir, prop + '.json'))

    for key, text in known.items():
        print('KNOWN-FINDING: property=%s key=%s %s (witnesses this run: %d)' % (prop, key, text, known_hits.get(key, 0)))
    if real:
        seen = set()
        # show distinct mechanisms first (one per case kind / mnemonic), at most 8 lines
        groups = {}
        for v in real:
            c = v['case'] if isinstance(v['case'], dict) else {}
            groups.setdefault((c.get('kind'), c.get('m'), v['what'].split()[0]), []).append(v)
        ordered = [g[0] for g in groups.values()] + [v for g in groups.values() for v in g[1:]]
        for v in ordered[:8]:
            path = write_replay(prop, v, tier, seed)
            if path in seen:
                continue
            seen.add(path)
            print('VIOLATION property=%s replay=%s' % (prop, path))
            print('  what: %s' % v['what'])
        print('%s %s: VIOLATED (%d violating cases of %d evaluations, %.1fs)' % (prop, tier, acc['nviol'], acc['n'], time.time() - t0))
        return 1
    if gates:
        for g in gates:
            print('INCONCLUSIVE property=%s reason=%s' % (prop, g))
        for n in acc['notes'][:3]:
            print(n)
        return 2
    print('%s %s: held on %d evaluations (%d distinct non-trivial), %.1fs' % (prop, tier, acc['n'], nontrivial, time.time() - t0))
    return 0


def run_check(modname, tier, seed):
    t0 = time.time()
    mod = importlib.import_module(modname)
    try:
        load_asm()
    except BaseException:
        out = Outcome()
        out.inconclusive.append('target cannot be imported: ' + traceback.format_exc().strip().splitlines()[-1])
        return conclude(mod, out, tier, seed, t0)
    plan = mod.plan(tier, seed)          # {'shards': [...], 'budget_s': n, 'workers': n, 'exhaustive': bool}
    out = run_shards(modname, plan['shards'], plan.get('budget_s', 60), plan.get('workers', NCPU))
    extra = plan.get('extra_cov')
    if hasattr(mod, 'post'):
        extra = dict(extra or {})
        extra.update(mod.post(out.acc, tier) or {})
    return conclude(mod, out, tier, seed, t0, extra_cov=extra, exhaustive=plan.get('exhaustive', False))


def run_replay(modname, path):
    mod = importlib.import_module(modname)
    body = json.load(open(path))
    case = body['case']
    if isinstance(case, dict) and case.get('_noassert'):
        select_mode(True)
        case = {k: v for k, v in case.items() if k != '_noassert'}
    load_asm()
    acc = mod.replay(case)
    known, _ = known_findings(mod.ID)
    classify = _safe_classifier(mod)
    real = [v for v in acc['viol'] if not ((v.get('key') or (classify(v) if classify else None)) in known)]
    if real:
        print('VIOLATION property=%s replay=%s' % (mod.ID, path))
        for v in real[:5]:
            print('  what: %s' % v['what'])
            print('  detail: %s' % json.dumps(_jsonable(v['detail']), sort_keys=True)[:2000])
        return 1
    if acc['viol']:
        print('%s replay: only known findings reproduced' % mod.ID)
        return 0
    print('%s replay: case holds on the current tree (%d evaluations)' % (mod.ID, acc['n']))
    return 0
