"""Pool of interfering programs for C16 and a subprocess entry point that assembles a list of pool entries in
order and prints the results as JSON:  python -m bbv.c16runner <seed> <i,j,k,...>"""
import json
import os
import random
import shutil
import sys
import tempfile

from .gen import program as P, randprog

FAILING = ['addi x1, x1, 5000', 'add x1, x1, foo', 'j nolabel', 'addi x1, x1, NOCONST', 'K2 = (1', 'K2 = 1.5', 'error stop here',
           'include nosuch_file.asm', 'db 256', 'li x5, SHARED_L', 'addi x8, x8, SHARED_K', 'beq x1, x2, SHARED_L']


def build_pool(seed, n=91):
    """-> list of entries {'src': text | None, 'tree': bool, 'compress': bool, 'dicts': bool}"""
    rng = random.Random('c16-pool-%d' % seed)
    pool = []
    # definers of the shared names, with different values
    for k, v in enumerate([5, 77, 1234]):
        pool.append({'src': 'SHARED_K = %d\nnop\nSHARED_L:\naddi x8, x8, SHARED_K\nli x5, SHARED_L\n%s' % (v, 'nop\n' * k), 'compress': bool(k & 1), 'dicts': k != 1})
    # users that never define them: must keep failing whatever ran before
    for f in FAILING:
        pool.append({'src': 'L0:\nK0 = 3\naddi x1, x1, K0\n%s\nj L0\n' % f, 'compress': rng.random() < 0.5, 'dicts': not f.endswith('SHARED_L') and rng.random() < 0.7})
    # one name, a constant in one program and a label in another; callers that pass no tables at all
    for name in ('TABLE', 'fee'):
        pool.append({'src': '%s = 64\nnop\naddi x1, x0, %s\ndb %s + 1\nalign 2\n' % (name, name, name), 'compress': False, 'dicts': False})
        pool.append({'src': 'nop\nnop\n%s:\ndw %s\nj %s\nli t1, %s\nlw t2, %s(zero)\n' % (name, name, name, name, name), 'compress': name == 'fee', 'dicts': False})
    # names made of hex digits / x only, the same expression texts with other values; a user of such a name that never defines it
    for k, (va, vb) in enumerate([(10, 1), (20, 3), (0xdec, 7)]):
        pool.append({'src': 'fee = %d\na = %d\nx = a + 1\ncafe = fee + 1\ndec = 4\naddi x1, x0, fee + 1\naddi x2, x0, a + x\ndb cafe & 0xff\ndb dec\ndh 0xbad + a\n' % (va, vb),
                     'compress': bool(k & 1), 'dicts': k != 1})
    pool.append({'src': 'addi x1, x0, dec + 1\n', 'compress': False, 'dicts': False})
    pool.append({'src': 'ADC = 3\nfee:\naddi x1, x0, ADC + 1\nj fee\n', 'compress': True, 'dicts': True})
    # text with backslashes that are no escapes (Python itself warns about those: process-wide warning state must not matter)
    pool.append({'src': 'string 50\\% off\nalign 2\nK9 = 1 + 2\naddi x1, x0, K9\nstring a\\qb \\d\nalign 2\n', 'compress': False, 'dicts': True})
    # a program that refers to symbols the caller supplies in the label table, with shrinking items in front of the references
    for k in range(2):
        pool.append({'src': 'li a0, 1\nlui a1, %hi(ext)\naddi a1, a1, %lo(ext)\nmv a2, a1\ncall rom_putc\nown:\nj own\n', 'compress': bool(k), 'dicts': True,
                     'ext': {'ext': 0x20001000, 'rom_putc': 0x1fff0100}})
    # register numbers spelled in hex / binary / octal, first in compressed (3-bit) register slots, then in 32-bit instructions
    pool.append({'src': 'c.and 0xa, 0xb\nc.lw 0b1001, 4(0xa)\nc.srli 0xf, 0x2\nc.sub 0o10, 0xc\n', 'compress': False, 'dicts': True})
    pool.append({'src': 'add 0xa, 0xb, 0xa\nslli 0xf, 0xf, 0x2\nlw 0b1001, 4(0xa)\nsub 0o10, 0o10, 0xc\n', 'compress': False, 'dicts': True,
                 'expect_out': '3385a50093972700832445003304c440'})      # hand-assembled: add x10,x11,x10 / slli x15,x15,2 / lw x9,4(x10) / sub x8,x8,x12
    # callers that hand in *empty* tables and read the program's names back from them (hand-computed)
    for k in range(2):
        pool.append({'src': 'X = %d\nY = X + 7\nS:\naddi x1, x0, Y\nE:\n' % (5 + k), 'compress': False, 'dicts': True, 'expect_out': '9300%x000' % (12 + k),
                     'expect_tables': {'labels': {'S': 0, 'E': 4}, 'constants': {'X': 5 + k, 'Y': 12 + k}}})
    # program text (not a file) whose include / include_bytes files sit in the working directory of the moment
    for k in range(2):
        pool.append({'src': 'include cwdinc.asm\naddi x1, x0, CWDK\ninclude_bytes cwdblob.bin\n', 'compress': False, 'dicts': True,
                     'cwdfiles': {'cwdinc.asm': 'CWDK = %d\n' % (7 + k), 'cwdblob.bin': 'NEW%d' % k}, 'expect_out': ('9300%x000' % (7 + k)) + ('NEW%d' % k).encode().hex()})
    # programs that fail at different stages while the caller's table holds external symbols
    for bad in ('K = 5 / 2', 'K = NOSUCH + 1', 'x5 = 3', 'addi x1, x1, 5000', 'j nolabel', 'K = (1'):
        pool.append({'src': 'nop\n%s\ncall rom_putc\n' % bad, 'compress': False, 'dicts': True, 'ext': {'ext': 0x20001000, 'rom_putc': 0x1fff0100}})
    # an expression that binds a name while it is evaluated (`:=`); later programs that use or define that name
    pool.append({'src': 'SIZE = (n := 4) * 4\naddi x1, x0, SIZE\n', 'compress': False, 'dicts': True})
    pool.append({'src': 'M = n + 1\naddi x1, x0, M\n', 'compress': False, 'dicts': True})
    pool.append({'src': 'n = 9\naddi x2, x0, n\naddi x3, x0, [q := 5, q + 1][1]\n', 'compress': True, 'dicts': False})
    # the same inside a comprehension / generator expression (there the bound name is stored where the comprehension's *enclosing*
    # scope keeps its names); later programs that use such a name without defining it must keep failing
    pool.append({'src': 'X = [(t := 5) for _ in [1]][0]\naddi x1, x0, X\n', 'compress': False, 'dicts': True})
    pool.append({'src': 'addi x1, x0, t\n', 'compress': False, 'dicts': True})
    pool.append({'src': 'Y = sum((u := k) for k in [1, 2])\nZ = max([w := 7, 1])\naddi x2, x0, Y + Z\n', 'compress': True, 'dicts': False})
    pool.append({'src': 'addi x3, x0, u + w\n', 'compress': False, 'dicts': False})
    # one spelling, `OFF`, a constant in one program and a label that still moves in the next, both under -c in an RVC-eligible
    # position: what was decided about the text of an operand in one call says nothing about the next call
    pool.append({'src': 'OFF = 8\nlw x8, OFF(x9)\naddi x9, x9, OFF\nc.nop\n', 'compress': True, 'dicts': True})
    pool.append({'src': 'li x9, 1\nOFF:\nlw x8, OFF(x9)\naddi x9, x9, OFF\nlw x10, 4(x8)\n', 'compress': True, 'dicts': True})
    pool.append({'src': 'OFF = 4\nli x9, 1\nsw x8, OFF(x9)\n', 'compress': True, 'dicts': False})
    # twins: the same instructions but for operands that collide where a table is keyed by something coarser than the operands themselves
    # (-1 and -2 have one hash in CPython, 1 and True are one dict key, '0x10' and '16' one value)
    pool.append({'src': 'addi t0, t0, -2\njal zero, -2\nlw x5, -2(x6)\nlui x7, 2\nc.addi x8, -2\n', 'compress': False, 'dicts': True})
    pool.append({'src': 'addi t0, t0, -1\nlw x5, -1(x6)\nlui x7, 1\nc.addi x8, -1\naddi t0, t0, -2\n', 'compress': False, 'dicts': True})
    pool.append({'src': 'addi t0, t0, -1\nsw x5, -1(x6)\nsw x5, -2(x6)\nandi x9, x9, -2\nandi x9, x9, -1\n', 'compress': True, 'dicts': False})
    # one name, `NAMEX`, a constant in a build that passes no tables and a label in the next build that passes none either: tables a
    # caller did not pass are nobody's
    pool.append({'src': 'NAMEX = 64\nli x5, NAMEX\naddi x6, x0, NAMEX\n', 'compress': False, 'dicts': False})
    pool.append({'src': 'nop\nnop\nNAMEX:\nj NAMEX\nli x5, NAMEX\ncall NAMEX\nbeqz x8, NAMEX\ndw NAMEX\n', 'compress': False, 'dicts': False})
    pool.append({'src': 'NAMEY:\nnop\nj NAMEY\n', 'compress': True, 'dicts': False})
    pool.append({'src': 'NAMEY = 12\naddi x6, x0, NAMEY\nj NAMEY\n', 'compress': True, 'dicts': False})
    # every label-moving step at least once (short li, near call, compression, align), four labels, run with a left-over table
    for k in range(2):
        pool.append({'src': 'A0:\nli x5, 1\nA1:\naddi x8, x8, 1\nA2:\ncall A0\nbytes 1 2\nalign 8\nA3:\nj A1\nbeqz x8, A3\ntail A2\nli x6, A2\ndw A3\ndw A1\n',
                     'compress': bool(k), 'dicts': True, 'stale': True})
    # same label / constant names, different values
    while len(pool) < n - 8:
        items = randprog.gen(rng, dict(n=(3, 25), labels=(1, 4)))
        if rng.random() < 0.6:
            items = randprog.constify(rng, items, 0.4)
        pool.append({'src': '\n'.join(P.render(items)) + '\n', 'compress': rng.random() < 0.5, 'dicts': rng.random() < 0.7})
        if len(pool) % 3 == 0:
            pool[-1]['dicts'] = True
            pool[-1]['stale'] = True
    # include trees (exercise include_dirs)
    for k in range(4):
        pool.append({'src': None, 'tree': k, 'compress': bool(k & 1), 'dicts': True})
    # trees 6, 7: both include the same, never modified file `shared2/part.asm`, whose own `include board.asm` is found through the
    # include_dirs of the call - another directory in each of the two
    pool.append({'src': None, 'tree': 6, 'compress': False, 'dicts': True, 'expect_out': '13051000'})      # addi x10, x0, BOARD (= 1)
    pool.append({'src': None, 'tree': 7, 'compress': False, 'dicts': True, 'expect_out': '13052000'})      # addi x10, x0, BOARD (= 2)
    # trees 4, 5: the included file itself includes a file that does not exist (read-time failure two levels down); tree 5 shares the
    # included file with tree 4
    pool.append({'src': None, 'tree': 4, 'compress': False, 'dicts': True})
    pool.append({'src': None, 'tree': 5, 'compress': True, 'dicts': False})
    return pool


def make_tree(root, k):
    if k >= 6:
        shared = os.path.join(root, 'shared2')
        board = os.path.join(root, 'boards', 'ab'[k - 6])
        src = os.path.join(root, 'srcboard%d' % k)
        for d in (shared, board, src):
            os.makedirs(d, exist_ok=True)
        part = os.path.join(shared, 'part.asm')
        if not os.path.exists(part):
            open(part, 'w').write('include board.asm\naddi x10, x0, BOARD\n')
        open(os.path.join(board, 'board.asm'), 'w').write('BOARD = %d\n' % (k - 5))
        open(os.path.join(src, 'main.asm'), 'w').write('include part.asm\n')
        return os.path.join(src, 'main.asm'), [shared, board]
    if k >= 4:
        shared = os.path.join(root, 'shared')
        src = os.path.join(root, 'srcbad%d' % k)
        os.makedirs(shared, exist_ok=True)
        os.makedirs(src, exist_ok=True)
        open(os.path.join(shared, 'common.asm'), 'w').write('COMMON_K = 3\nnop\ninclude nosuch_nested.asm\n')
        open(os.path.join(src, 'main.asm'), 'w').write('addi x1, x1, 1\ninclude common.asm\nret\n' + ('nop\n' * (k - 4)))
        return os.path.join(src, 'main.asm'), [shared]
    inc = os.path.join(root, 'inc%d' % k)
    src = os.path.join(root, 'src%d' % k)
    os.makedirs(inc, exist_ok=True)
    os.makedirs(src, exist_ok=True)
    open(os.path.join(inc, 'defs.asm'), 'w').write('SHARED_K = %d\nBASE = 0x%x\n' % (100 + k, 0x08000000 + k))
    open(os.path.join(src, 'part.asm'), 'w').write('PART:\naddi x8, x8, SHARED_K\nli x5, %position(PART, BASE)\n')
    open(os.path.join(src, 'main.asm'), 'w').write('include defs.asm\nL0:\ninclude part.asm\nj L0\n' + ('nop\n' * k))
    return os.path.join(src, 'main.asm'), [inc]


def run_entry(asm, entry, root):
    labels, constants = {}, {}
    if entry.get('stale') and entry.get('src'):
        # the caller hands in the table of an earlier build: this program's own label names, stale values, another order
        import re
        names = re.findall(r'^([A-Za-z_][A-Za-z_0-9]*):$', entry['src'], re.M)
        rng = random.Random(entry['src'])
        rng.shuffle(names)
        for n in names:
            labels[n] = 2 * rng.randrange(0, 3000)
    if entry.get('ext'):
        labels.update(entry['ext'])          # symbols of the environment (ROM routines, RAM addresses): the caller's input
    kw = {'compress': entry['compress']}
    if entry['dicts']:
        kw.update(labels=labels, constants=constants)
    incs = None
    if entry.get('src') is None:
        path, incs = make_tree(root, entry['tree'])
        src = path
        kw['include_dirs'] = incs
        incs_before = list(incs)
    else:
        src = entry['src']
    back = None
    if entry.get('cwdfiles'):
        cwd = tempfile.mkdtemp(prefix='cwd', dir=root)
        for name, text in entry['cwdfiles'].items():
            with open(os.path.join(cwd, name), 'w') as f:
                f.write(text)
        back = os.getcwd()
        os.chdir(cwd)
    try:
        out = bytes(asm.assemble(src, **kw))
        again = None
        if entry.get('ext'):
            # the caller keeps its table and builds the same source again: same inputs, same result
            again = bytes(asm.assemble(src, **kw)).hex()
        res = {'ok': True, 'out': out.hex(), 'again_with_the_same_tables': again, 'labels': sorted(labels.items()) if entry.get('stale') else list(labels.items()), 'constants': list(constants.items())}
    except Exception as e:  # noqa
        ext_lost = None
        if entry.get('ext'):
            ext_lost = {k: labels.get(k) for k, v in entry['ext'].items() if labels.get(k) != v} or None
        line = getattr(e, 'line', None)
        f = getattr(line, 'file', None)
        res = {'ok': False, 'type': type(e).__name__, 'msg': str(getattr(e, 'message', e))[:200].replace(root, '<root>'),
               'file': os.path.basename(f) if isinstance(f, str) else f, 'number': getattr(line, 'number', None), 'externals_changed_by_the_failing_call': ext_lost}
    if back is not None:
        os.chdir(back)
    if incs is not None:
        res['include_dirs_mutated'] = incs != incs_before
    if entry.get('expect_out') is not None:
        res['differs_from_hand_computed'] = None if res.get('out') == entry['expect_out'] else entry['expect_out']
    if entry.get('expect_tables') is not None and res.get('ok'):
        got = {'labels': dict(labels), 'constants': dict(constants)}
        if got != entry['expect_tables']:
            res['differs_from_hand_computed'] = 'tables %r' % (entry['expect_tables'],)
    return res


def main():
    sys.dont_write_bytecode = True
    from . import core
    seed = int(sys.argv[1])
    order = [int(x) for x in sys.argv[2].split(',') if x]
    asm = core.load_asm()
    pool = build_pool(seed)
    root = tempfile.mkdtemp(prefix='bbv-c16-')
    try:
        res = [run_entry(asm, pool[i], root) for i in order]
    finally:
        shutil.rmtree(root, ignore_errors=True)
    json.dump({'order': order, 'results': res, 'hashseed': os.environ.get('PYTHONHASHSEED')}, sys.stdout)


if __name__ == '__main__':
    main()
