"""Structured programs (DESIGN.md 3.2): a program is a list of JSON-able item dicts, never text.  The generator
therefore knows what every line *names*; renderers turn a structure into source text.

items:
  {'k':'label','name':L}            {'k':'const','name':K,'value':int,'text':str}
  {'k':'inst','m':mnemonic,'ops':[op..]}      real instruction (32-bit or c.*), operands in documented order
  {'k':'pseudo','m':name,'ops':[op..]}
  {'k':'data','d':'db|dh|dw|dd','val':op}     {'k':'seq','d':'bytes|shorts|ints|longs|longlongs','vals':[int..]}
  {'k':'pack','fmt':'<I','val':op}            {'k':'string','text':str}   {'k':'gap','n':int}   {'k':'align','n':int}
operands:
  {'r':n} register   {'i':v} integer literal   {'c':K} constant (integer)   {'cr':K} constant naming a register
  {'t':L} branch/jump target   {'lab':L} label value   {'off':L} %offset(L)   {'pos':[L, op]} %position(L, base)
  {'hi':op} {'lo':op}   {'diff':[L2, L1]}  L2 - L1   {'sum':[op, int]}  op + int
"""
from ..refmodel import operands as O

M32 = 0xffffffff


def sx(v, bits):
    v &= (1 << bits) - 1
    return v - (1 << bits) if v >> (bits - 1) else v


def ref_hi(v):
    """%hi by the RISC-V psABI definition: the upper 20 bits after compensating for the sign of the low 12"""
    return sx((v + 0x800) >> 12, 20)


def ref_lo(v):
    return sx(v, 12)


def label_dependent(op):
    if isinstance(op, dict):
        if any(k in op for k in ('t', 'lab', 'off', 'pos', 'diff', 'labconst')):
            return True
        return any(label_dependent(v) for v in op.values())
    if isinstance(op, list):
        return any(label_dependent(v) for v in op)
    return False


def ev(op, labels, consts, here):
    """value an operand names, given final label offsets and the offset of the item containing it"""
    if 'i' in op:
        return op['i']
    if 'x' in op:
        return op['x'][1]          # literal expression text with its (generator-side) value
    if 'r' in op:
        return op['r']
    if 'c' in op:
        return consts[op['c']]
    if 'cr' in op:
        return consts[op['cr']]
    if 'labconst' in op:
        return consts[op['labconst']]       # a constant whose definition names labels (see const items with 'labexpr')
    if 'lab' in op:
        return labels[op['lab']]
    if 't' in op:
        return (labels[op['t']] if op['t'] in labels else consts[op['t']]) - here
    if 'off' in op:
        return (labels[op['off']] if op['off'] in labels else consts[op['off']]) - here
    if 'pos' in op:
        return ev(op['pos'][1], labels, consts, here) + labels[op['pos'][0]]
    if 'hi' in op:
        return ref_hi(ev(op['hi'], labels, consts, here))
    if 'lo' in op:
        return ref_lo(ev(op['lo'], labels, consts, here))
    if 'diff' in op:
        return labels[op['diff'][0]] - labels[op['diff'][1]]
    if 'sum' in op:
        return ev(op['sum'][0], labels, consts, here) + op['sum'][1]
    raise KeyError(op)


def regno(op, consts):
    if 'r' in op:
        return op['r']
    if 'cr' in op:
        return consts[op['cr']]
    raise KeyError(op)


# ------------------------------------------------------------------------------------------
# canonical rendering

def r_op(op):
    if 'i' in op:
        return str(op['i'])
    if 'x' in op:
        return op['x'][0]
    if 'r' in op:
        return 'x%d' % op['r']
    if 'c' in op:
        return op['c']
    if 'cr' in op:
        return op['cr']
    if 'labconst' in op:
        return op['labconst']
    if 'lab' in op:
        return op['lab']
    if 't' in op:
        return op['t']
    if 'off' in op:
        return '%%offset(%s)' % op['off']
    if 'pos' in op:
        return '%%position(%s, %s)' % (op['pos'][0], r_op(op['pos'][1]))
    if 'hi' in op:
        return '%%hi(%s)' % r_op(op['hi'])
    if 'lo' in op:
        return '%%lo(%s)' % r_op(op['lo'])
    if 'diff' in op:
        return '%s - %s' % (op['diff'][0], op['diff'][1])
    if 'sum' in op:
        return '%s + %d' % (r_op(op['sum'][0]), op['sum'][1])
    raise KeyError(op)


def r_item(it):
    k = it['k']
    if k == 'label':
        return it['name'] + ':'
    if k == 'const':
        return '%s = %s' % (it['name'], it['text'] if 'labexpr' not in it else r_op(it['labexpr']))
    if k in ('inst', 'pseudo'):
        ops = [r_op(o) for o in it['ops']]
        return it['m'] + (' ' + ', '.join(ops) if ops else '')
    if k == 'data':
        return '%s %s' % (it['d'], r_op(it['val']))
    if k == 'seq':
        return '%s %s' % (it['d'], ' '.join(str(v) for v in it['vals']))
    if k == 'pack':
        return 'pack %s, %s' % (it['fmt'], r_op(it['val']))
    if k == 'string':
        return 'string ' + it['text']
    if k == 'gap':
        return 'string ' + 'G' * it['n']
    if k == 'align':
        return 'align %d' % it['n']
    if k == 'raw':
        return it['text']
    if k == 'packn':
        return 'pack %s, %d' % (it['fmt'], it['val'])
    raise KeyError(k)


def render(items):
    return [r_item(it) for it in items]


# ------------------------------------------------------------------------------------------
# sizes the documentation allows for an item (C09) and data expectations (C10)

SEQ_W = {'bytes': 1, 'shorts': 2, 'ints': 4, 'longs': 4, 'longlongs': 8}
SH_W = {'db': 1, 'dh': 2, 'dw': 4, 'dd': 8}
PACK_W = {'b': 1, 'B': 1, 'h': 2, 'H': 2, 'i': 4, 'I': 4, 'l': 4, 'L': 4, 'q': 8, 'Q': 8}


def allowed_sizes(it, compress):
    k = it['k']
    if k in ('label', 'const'):
        return {0}
    if k == 'inst':
        if it['m'].startswith('c.'):
            return {2}
        return {2, 4} if compress else {4}
    if k == 'pseudo':
        if it['m'] in ('li', 'call', 'tail'):
            return {2, 4, 6, 8} if compress else {4, 8}
        return {2, 4} if compress else {4}
    if k == 'data':
        return {SH_W[it['d']]}
    if k == 'seq':
        return {SEQ_W[it['d']] * len(it['vals'])}
    if k == 'pack':
        return {PACK_W[it['fmt'][1]]}
    if k == 'string':
        return {len(it['text'].encode('utf-8'))}   # generators that use escapes do not use this helper
    if k == 'gap':
        return {it['n']}
    if k == 'align':
        return None     # depends on the offset: (-offset) mod n
    if k == 'raw':
        return {0}
    if k == 'packn':
        import struct
        return {struct.calcsize(it['fmt'])}       # a format without byte-order character: Python's struct in native mode defines its size
    raise KeyError(k)


def item_offsets(items, chunks):
    """label name -> offset of the first byte that follows it (from where the bytes really ended up)"""
    labels = {}
    for it, (st, _data) in zip(items, chunks):
        if it['k'] == 'label':
            labels[it['name']] = st
    return labels


def rename_labels(items, mapping):
    """a deep copy of the program with label names replaced (definitions and every reference)"""
    def ren(o):
        if isinstance(o, dict):
            out = {}
            for k, v in o.items():
                if k in ('t', 'lab', 'off') and isinstance(v, str):
                    out[k] = mapping.get(v, v)
                elif k in ('pos',) and isinstance(v, list):
                    out[k] = [mapping.get(v[0], v[0]), ren(v[1])]
                elif k == 'diff' and isinstance(v, list):
                    out[k] = [mapping.get(x, x) if isinstance(x, str) else ren(x) for x in v]
                elif k == 'name' and o.get('k') == 'label':
                    out[k] = mapping.get(v, v)
                else:
                    out[k] = ren(v)
            return out
        if isinstance(o, list):
            return [ren(x) for x in o]
        return o
    return [ren(it) for it in items]
