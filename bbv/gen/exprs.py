"""Integer expression trees over the operators the documentation lists: evaluated directly (Python integer
semantics, which the docs name as the definition), rendered with minimal or redundant parentheses by Python's
precedence.  ('lit', v, base) ('name', K) ('neg', t) ('inv', t) ('bin', op, a, b)"""

PREC = {'|': 1, '^': 2, '&': 3, '<<': 4, '>>': 4, '+': 5, '-': 5, '*': 6, '//': 6, '%': 6}
OPS = list(PREC)
LIMIT = 1 << 70


class Invalid(Exception):
    pass


def ev(t, env):
    k = t[0]
    if k == 'lit':
        return t[1]
    if k == 'name':
        return env[t[1]]
    if k == 'neg':
        return -ev(t[1], env)
    if k == 'inv':
        return ~ev(t[1], env)
    op = t[1]
    a, b = ev(t[2], env), ev(t[3], env)
    if op in ('<<', '>>'):
        if b < 0 or b > 40:
            raise Invalid
    if op in ('//', '%') and b == 0:
        raise Invalid
    r = {'|': lambda: a | b, '^': lambda: a ^ b, '&': lambda: a & b, '<<': lambda: a << b, '>>': lambda: a >> b, '+': lambda: a + b,
         '-': lambda: a - b, '*': lambda: a * b, '//': lambda: a // b, '%': lambda: a % b}[op]()
    if abs(r) > LIMIT:
        raise Invalid
    return r


def gen(rng, depth, names=()):
    if depth == 0 or rng.random() < 0.28:
        if names and rng.random() < 0.3:
            return ('name', rng.choice(list(names)))
        v = rng.choice([0, 1, 2, 3, 5, 7, 12, 31, 32, 255, 256, 4096, 0x12345678, 0xffffffff, rng.randint(0, 1 << 20), rng.randint(0, 40)])
        if rng.random() < 0.12:
            # a character literal is a number form too ("character literals can also be used"), also inside a larger expression
            return ('lit', rng.choice([ord(c) for c in "aZ09?! +-*/~_@" "#,()'\"[]{}:;"]), 'c')
        return ('lit', v, rng.choice('dxb'))
    k = rng.random()
    if k < 0.12:
        return ('neg', gen(rng, depth - 1, names))
    if k < 0.22:
        return ('inv', gen(rng, depth - 1, names))
    return ('bin', rng.choice(OPS), gen(rng, depth - 1, names), gen(rng, depth - 1, names))


def sp(rng):
    return rng.choice(['', ' ', ' ', '  ', '\t'])


def lit(v, base):
    if base == 'c':
        return "'%s'" % chr(v)
    return {'d': str(v), 'x': hex(v), 'b': bin(v)}[base]


def render(rng, t, parent=0, redundant=0.2):
    """parent: precedence the context requires of this subexpression (wrap when lower)"""
    k = t[0]
    if k == 'lit':
        return lit(t[1], t[2])
    if k == 'name':
        return t[1]
    if k in ('neg', 'inv'):
        s = ('-' if k == 'neg' else '~') + sp(rng) + render(rng, t[1], 7, redundant)
        return '(' + s + ')' if parent > 7 or rng.random() < redundant * 0.5 else s
    op = t[1]
    p = PREC[op]
    # left-associative: the right operand needs strictly higher precedence
    s = render(rng, t[2], p, redundant) + sp(rng) + op + sp(rng) + render(rng, t[3], p + 1, redundant)
    if p < parent or rng.random() < redundant:
        s = '(' + sp(rng) + s + sp(rng) + ')'
    return s


def spell_value(rng, v, spaces=None):
    """an integer expression text whose value is v, built from one of the documented operators (Python integer semantics):
    the same number as a literal would give, written the way people write derived quantities (`CLOCK // BAUD`, `SIZE - 1`)"""
    q = rng.randrange(2, 9)
    a = rng.randrange(1, 50)
    k = rng.randrange(10)
    if k == 0:
        t = '%d // %d' % (v * q + rng.randrange(q), q)
    elif k == 1:
        t = '%d // %d' % (v * q, q)
    elif k == 2 and v >= 0:
        b = v + a
        t = '%d %% %d' % (v + b * rng.randrange(0, 5), b)
    elif k == 3:
        sh = rng.randrange(1, 8)
        t = '%d >> %d' % (v << sh, sh)
    elif k == 4:
        t = '%d - %d' % (v + a, a)
    elif k == 5:
        t = '%d ^ %d' % (v ^ a, a)
    elif k == 6:
        t = '~%d' % (~v)
    elif k == 7:
        t = '%d * %d + %d' % (v // q, q, v % q)
    elif k == 8 and v >= 0 and v % 2 == 0 and v:
        low = (v & -v).bit_length() - 1
        t = '%d << %d' % (v >> low, low)
    else:
        t = '%d + %d' % (v - a, a)          # (no parenthesis in front: `(40)+4` after a load / store reads as offset(base))
    if spaces is None:
        spaces = rng.random() < 0.7
    return t if spaces else t.replace(' ', '')
