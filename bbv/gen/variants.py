"""Accepted-syntax variations beyond the documented spelling freedoms, used by the *semantic* checks (C01 C02 C03 C05 C08 C09):
upper / mixed-case mnemonics and directives, a literal immediate written as a parenthesised expression, upper-case hex digits,
CR LF line endings.  The current assembler accepts all of them; a check that uses them treats a refusal as coverage loss
(these checks speak about *accepted* programs), never as a violation."""
from ..refmodel import operands as O

BASE_OFFSET = {'jalr', 'lb', 'lh', 'lw', 'lbu', 'lhu', 'sb', 'sh', 'sw', 'c.lw', 'c.sw'}


def case_mnemonic(rng, line):
    s = line.lstrip()
    if not s or s.endswith(':') or '=' in s.split()[1:2] or s.startswith(('string ', '#')):
        return line
    head, sep, rest = s.partition(' ')
    k = rng.randrange(3)
    head = head.upper() if k == 0 else (head.capitalize() if k == 1 else head)
    return line[:len(line) - len(s)] + head + sep + rest


def paren_imm(rng, it, line):
    """`addi x1, x2, 5` -> `addi x1, x2, (5)` for instructions that have no base+offset alternative"""
    if it['k'] != 'inst' or it['m'] in BASE_OFFSET or not it['ops'] or 'i' not in it['ops'][-1]:
        return line
    if it['m'] in O.ATOMICS or it['m'] == 'fence' or it['m'] in ('slli', 'srli', 'srai') or it['m'].startswith('c.s') or it['m'] in ('beq', 'bne', 'blt', 'bge', 'bltu', 'bgeu', 'jal', 'c.j', 'c.jal', 'c.beqz', 'c.bnez'):
        return line      # shift amounts / fence sets / literal branch targets are not parsed as expressions
    v = str(it['ops'][-1]['i'])
    if line.rstrip().endswith(v):
        r = line.rstrip()
        return r[:len(r) - len(v)] + rng.choice(['(%s)', '( %s )', '(%s + 0)']) % v
    return line


def vary(rng, items, lines, p=0.5):
    out = []
    for it, line in zip(items, lines):
        if it['k'] in ('inst', 'pseudo', 'seq', 'pack', 'align', 'data') and rng.random() < p:
            line = case_mnemonic(rng, line)
        if rng.random() < p * 0.6:
            line = paren_imm(rng, it, line)
        if it['k'] not in ('string', 'gap', 'raw'):
            line = comment(rng, line, p * 0.4)
        out.append(line)
    return out


# comments (documented: `#` to the end of the line) whose text looks like something the assembler knows
COMMENTS = ['# save string pointer', '# error code in a0', '#string x', '# include defs.asm', '# x1, x2', '# bytes 1 2 3', '# K = 5', '# loop:',
            '# 50% done', "# don't", '# (see above', '# pack <I 5', '# align 4', '# error', '# string', '# li x1, 1 # twice', '#',
            '## banner ##', '# item #1', '#### section', '# a # b # c', '#-#',
            "# 'A' would be 65", "# not '\\n'", "# ',' and ' '", "# '#'", "#'x'",
            '# see C:\\fw\\', '# +----\\', '# \\', '# WIDTH = 8', '# a == b', '# t0 := 5', '# "quoted"', '# tab\there', '# 100%', '# @todo ; x', '# //',
            '# /* c */', '# $1', '# `x`', '# {k}', '# [0]', '# a\\nb', '# é ü €']


def comment(rng, line, p=0.3):
    """append a trailing comment to a line that is not a `string` / `error` directive (their text runs to the end of the line)"""
    s = line.lstrip().lower()
    if rng.random() >= p or s.startswith(('string', 'error')):
        return line
    return line + rng.choice(['  ', ' ', '\t', '   ']) + rng.choice(COMMENTS)


def offbase_lines(items, lines, parity=0):
    """every second base+offset instruction (lw / sw / jalr / c.lw / ...) in the documented `offset(base)` spelling - `lw rd, off(rs1)`,
    `sw rs2, off(rs1)` - when the offset is one plain token (a literal or a constant name); counted over the instructions, so that two
    renderings of the same program (values literal / through constants) respell the same lines"""
    from . import program as P
    out = []
    n = 0
    for it, line in zip(items, lines):
        if it['k'] == 'inst' and it['m'] in BASE_OFFSET and len(it['ops']) == 3:
            n += 1
            ops = [P.r_op(o) for o in it['ops']]
            if n % 2 == parity and not any(c in ops[2] for c in ' ()%\t'):
                if it['m'] in ('sb', 'sh', 'sw', 'c.sw'):
                    line = '%s %s, %s(%s)' % (it['m'], ops[1], ops[2], ops[0])
                else:
                    line = '%s %s, %s(%s)' % (it['m'], ops[0], ops[2], ops[1])
        out.append(line)
    return out
