"""Seeded random structured programs for the layout / semantics checks (C03 C04 C08 C09 C12 C13 C20).

Well-formedness (DESIGN.md 3.2): code only at even offsets (odd-sized data is followed by an even align), unique
labels, transfer targets chosen so that the *pessimistic* distance is within the reach of the instruction (the
final distance can only be smaller), label-valued 12-bit immediates only where the pessimistic label offset fits.
"""
from ..refmodel import operands as O

REG_POOL = [0, 1, 2, 5, 6, 8, 8, 9, 9, 10, 12, 15, 15, 16, 31]
IMM12 = [-2048, -2047, -1025, -513, -512, -496, -33, -32, -31, -17, -16, -4, -1, 0, 0, 1, 2, 4, 8, 12, 16, 31, 32, 33, 60, 63, 64, 124,
         127, 128, 252, 255, 256, 496, 508, 511, 512, 1020, 1023, 1024, 2044, 2047]
ALU_I = ['addi', 'andi', 'ori', 'xori', 'slti', 'sltiu']
LOADS = ['lw', 'lb', 'lh', 'lbu', 'lhu']
STORES = ['sw', 'sb', 'sh']
ALU_R = ['add', 'sub', 'and', 'or', 'xor', 'sll', 'srl', 'sra', 'slt', 'sltu', 'mul', 'mulh', 'div', 'remu']
SHIFTS = ['slli', 'srli', 'srai']
AMO = ['lr.w', 'sc.w', 'amoswap.w', 'amoadd.w', 'amoxor.w', 'amoand.w', 'amoor.w', 'amomin.w', 'amomax.w', 'amominu.w', 'amomaxu.w']
BRANCHES = ['beq', 'bne', 'blt', 'bge', 'bltu', 'bgeu']
PBRANCH1 = ['beqz', 'bnez', 'blez', 'bgez', 'bltz', 'bgtz']
PBRANCH2 = ['bgt', 'ble', 'bgtu', 'bleu']
UNARY = ['mv', 'not', 'neg', 'seqz', 'snez', 'sltz', 'sgtz']
REACH = {'branch': 4000, 'jal': 1000000, 'c.j': 2000, 'c.b': 240, 'far': 1 << 40}


def R(rng):
    return {'r': rng.choice(REG_POOL) if rng.random() < 0.8 else rng.randrange(32)}


def Rc(rng):
    return {'r': rng.randrange(8, 16)}


def plain_inst(rng, compress_bias=0.5):
    """a real instruction with literal operands; with probability compress_bias shaped to be RVC-eligible"""
    c = rng.random()
    if rng.random() < compress_bias:
        k = rng.randrange(14)
        r8 = rng.randrange(8, 16)
        rn = rng.choice([1, 5, 8, 10, 15, 31])
        if k == 0:
            return {'k': 'inst', 'm': 'addi', 'ops': [{'r': rn}, {'r': rn}, {'i': rng.choice([-32, -1, 1, 5, 31])}]}
        if k == 1:
            return {'k': 'inst', 'm': 'addi', 'ops': [{'r': rn}, {'r': 0}, {'i': rng.choice([-32, 0, 7, 31])}]}
        if k == 2:
            return {'k': 'inst', 'm': 'lw', 'ops': [{'r': r8}, {'r': rng.randrange(8, 16)}, {'i': rng.choice([0, 4, 64, 124])}]}
        if k == 3:
            return {'k': 'inst', 'm': 'sw', 'ops': [{'r': rng.randrange(8, 16)}, {'r': r8}, {'i': rng.choice([0, 4, 64, 124])}]}
        if k == 4:
            return {'k': 'inst', 'm': rng.choice(['sub', 'xor', 'or', 'and']), 'ops': [{'r': r8}, {'r': r8}, {'r': rng.randrange(8, 16)}]}
        if k == 5:
            return {'k': 'inst', 'm': 'add', 'ops': [{'r': rn}, {'r': rn}, {'r': rng.choice([1, 8, 31])}]}
        if k == 6:
            return {'k': 'inst', 'm': 'add', 'ops': [{'r': rn}, {'r': 0}, {'r': rng.choice([1, 8, 31])}]}
        if k == 7:
            return {'k': 'inst', 'm': rng.choice(['srli', 'srai']), 'ops': [{'r': r8}, {'r': r8}, {'i': rng.choice([1, 5, 31])}]}
        if k == 8:
            return {'k': 'inst', 'm': 'slli', 'ops': [{'r': rn}, {'r': rn}, {'i': rng.choice([1, 5, 31])}]}
        if k == 9:
            return {'k': 'inst', 'm': 'andi', 'ops': [{'r': r8}, {'r': r8}, {'i': rng.choice([-32, -1, 0, 31])}]}
        if k == 10:
            return {'k': 'inst', 'm': 'lui', 'ops': [{'r': rng.choice([1, 5, 8, 31])}, {'i': rng.choice([1, 31, -32, -1, 0xfffff, 0xfffe0])}]}
        if k == 11:
            if rng.random() < 0.5:
                return {'k': 'inst', 'm': 'lw', 'ops': [{'r': rn}, {'r': 2}, {'i': rng.choice([0, 4, 128, 252])}]}
            return {'k': 'inst', 'm': 'sw', 'ops': [{'r': 2}, {'r': rn}, {'i': rng.choice([0, 4, 128, 252])}]}
        if k == 12:
            if rng.random() < 0.5:
                return {'k': 'inst', 'm': 'addi', 'ops': [{'r': 2}, {'r': 2}, {'i': rng.choice([-512, -16, 16, 496])}]}
            return {'k': 'inst', 'm': 'addi', 'ops': [{'r': r8}, {'r': 2}, {'i': rng.choice([4, 8, 512, 1020])}]}
        if rng.random() < 0.3:
            return {'k': 'inst', 'm': 'ebreak', 'ops': []}
        return {'k': 'inst', 'm': 'jalr', 'ops': [{'r': rng.choice([0, 1])}, {'r': rng.choice([1, 5, 8])}, {'i': 0}]}
    if c < 0.25:
        return {'k': 'inst', 'm': rng.choice(ALU_I), 'ops': [R(rng), R(rng), {'i': rng.choice(IMM12)}]}
    if c < 0.4:
        return {'k': 'inst', 'm': rng.choice(LOADS), 'ops': [R(rng), R(rng), {'i': rng.choice(IMM12)}]}
    if c < 0.5:
        return {'k': 'inst', 'm': rng.choice(STORES), 'ops': [R(rng), R(rng), {'i': rng.choice(IMM12)}]}
    if c < 0.66:
        return {'k': 'inst', 'm': rng.choice(ALU_R), 'ops': [R(rng), R(rng), R(rng)]}
    if c < 0.69:
        # atomics: three (lr.w: two) registers, no immediate
        m = rng.choice(AMO)
        return {'k': 'inst', 'm': m, 'ops': [R(rng), R(rng)] + ([] if m == 'lr.w' else [R(rng)])}
    if c < 0.7:
        return {'k': 'inst', 'm': rng.choice(['csrrwi', 'csrrsi', 'csrrci']), 'ops': [R(rng), {'i': rng.randrange(32)}, {'i': rng.choice([0, 0x300, 0x341, 0x7ff, 0xc00, 0xf14])}]}
    if c < 0.78:
        return {'k': 'inst', 'm': rng.choice(SHIFTS), 'ops': [R(rng), R(rng), {'i': rng.randrange(32)}]}
    if c < 0.86:
        return {'k': 'inst', 'm': rng.choice(['lui', 'auipc']), 'ops': [R(rng), {'i': rng.choice([0, 1, 31, 32, -32, -33, 0x7ffff, -0x80000, 0xfffff, 0xfffe0, 0xfffdf, 0x12345])}]}
    if c < 0.9:
        return {'k': 'inst', 'm': 'jalr', 'ops': [R(rng), R(rng), {'i': rng.choice([0, 0, 2, -2, 16, 2046, -2048])}]}
    if c < 0.94:
        return {'k': 'inst', 'm': rng.choice(['ecall', 'ebreak', 'fence.i']), 'ops': []}
    if c < 0.97:
        return {'k': 'inst', 'm': 'fence', 'ops': [{'i': rng.randrange(16)}, {'i': rng.randrange(16)}]}
    return {'k': 'inst', 'm': rng.choice(['csrrw', 'csrrs', 'csrrc']), 'ops': [R(rng), R(rng), {'i': rng.choice([0, 0x300, 0x341, 0x7ff])}]}


def explicit_c(rng):
    k = rng.randrange(9)
    r8 = Rc(rng)
    rn = {'r': rng.choice([1, 5, 8, 15, 31])}
    if k == 0:
        return {'k': 'inst', 'm': 'c.addi', 'ops': [rn, {'i': rng.choice([-32, -1, 1, 31])}]}
    if k == 1:
        return {'k': 'inst', 'm': 'c.li', 'ops': [rn, {'i': rng.choice([-32, 0, 31])}]}
    if k == 2:
        return {'k': 'inst', 'm': 'c.lw', 'ops': [r8, Rc(rng), {'i': rng.choice([0, 4, 124])}]}
    if k == 3:
        return {'k': 'inst', 'm': 'c.sw', 'ops': [r8, Rc(rng), {'i': rng.choice([0, 4, 124])}]}
    if k == 4:
        return {'k': 'inst', 'm': rng.choice(['c.sub', 'c.xor', 'c.or', 'c.and']), 'ops': [r8, Rc(rng)]}
    if k == 5:
        return {'k': 'inst', 'm': rng.choice(['c.mv', 'c.add']), 'ops': [rn, {'r': rng.choice([1, 8, 31])}]}
    if k == 6:
        return {'k': 'inst', 'm': rng.choice(['c.srli', 'c.srai']), 'ops': [r8, {'i': rng.choice([1, 31])}]}
    if k == 7:
        return {'k': 'inst', 'm': 'c.nop', 'ops': []}
    return {'k': 'inst', 'm': 'c.lwsp', 'ops': [rn, {'i': rng.choice([0, 4, 252])}]}


LI_VALUES = [0, 1, -1, 7, 31, -32, 32, 2047, -2048, 2048, -2049, 0x1000, 0x12000, 0x12345, 0x7ffff800, 0x7fffffff, 0x80000000,
             0xffffffff, 0xfffff800, 0x800, 0xfff, 0xdeadbeef, -0x80000000, 0x1f000, 0xfffe0000]


def pess_size(it):
    k = it['k']
    if k in ('label', 'const'):
        return 0
    if k == 'inst':
        return 2 if it['m'].startswith('c.') else 4
    if k == 'pseudo':
        return 8 if it['m'] in ('li', 'call', 'tail') else 4
    if k == 'xfer':
        return it['max']
    if k == 'data':
        return {'db': 1, 'dh': 2, 'dw': 4, 'dd': 8}[it['d']]
    if k == 'seq':
        return {'bytes': 1, 'shorts': 2, 'ints': 4, 'longs': 4, 'longlongs': 8}[it['d']] * len(it['vals'])
    if k == 'pack':
        return {'b': 1, 'B': 1, 'h': 2, 'H': 2, 'i': 4, 'I': 4, 'l': 4, 'L': 4, 'q': 8, 'Q': 8}[it['fmt'][1]]
    if k == 'string':
        return len(it['text'].encode('utf-8'))
    if k == 'gap':
        return it['n']
    if k == 'align':
        return it['n']
    if k == 'labimm':
        return it['max']
    if k == 'packn':
        import struct
        return struct.calcsize(it['fmt'])
    raise KeyError(k)


DEFAULT = dict(n=(3, 60), labels=(1, 6), w_inst=30, w_cinst=4, w_pseudo=10, w_li=8, w_xfer=18, w_data=8, w_align=6, w_gap=2,
               w_labimm=8, w_string=2, compress_bias=0.5, big_gap=0.08, odd_align=False)


def gen(rng, cfg=None):
    c = dict(DEFAULT)
    c.update(cfg or {})
    n = rng.randint(*c['n'])
    nl = rng.randint(*c['labels'])
    names = ['L%d' % i for i in range(nl)]
    kinds = ['inst', 'cinst', 'pseudo', 'li', 'xfer', 'data', 'align', 'gap', 'labimm', 'string']
    weights = [c['w_' + k] for k in kinds]
    items = []
    label_slots = sorted(rng.randrange(n + 1) for _ in names)
    li = 0
    for idx in range(n + 1):
        while li < nl and label_slots[li] == idx:
            items.append({'k': 'label', 'name': names[li]})
            li += 1
        if idx == n:
            break
        k = rng.choices(kinds, weights)[0]
        if k == 'inst':
            items.append(plain_inst(rng, c['compress_bias']))
        elif k == 'cinst':
            items.append(explicit_c(rng))
        elif k == 'pseudo':
            m = rng.choice(UNARY + ['nop', 'ret', 'fence', 'jr', 'jalr'])
            if m in UNARY:
                items.append({'k': 'pseudo', 'm': m, 'ops': [R(rng), R(rng)]})
            elif m in ('jr', 'jalr'):
                items.append({'k': 'pseudo', 'm': m, 'ops': [R(rng)]})
            else:
                items.append({'k': 'pseudo', 'm': m, 'ops': []})
        elif k == 'li':
            v = rng.choice(LI_VALUES) if rng.random() < 0.7 else rng.getrandbits(32)
            if rng.random() < 0.25:
                # the value as a derived quantity (`1 << 12`, `4 * 1024`, `8200 - 8`): several tokens, the first of them often small
                from . import exprs
                txt = exprs.spell_value(rng, v, spaces=True)
                if v and v % 2 == 0 and rng.random() < 0.5:
                    low = (v & -v).bit_length() - 1
                    txt = '%d << %d' % (v >> low, low)
                items.append({'k': 'pseudo', 'm': 'li', 'ops': [R(rng), {'x': [txt, v]}]})
            else:
                items.append({'k': 'pseudo', 'm': 'li', 'ops': [R(rng), {'i': v}]})
        elif k == 'xfer':
            kind = rng.choice(['b', 'b', 'pb1', 'pb2', 'jal', 'j', 'jalp', 'call', 'tail', 'c.j', 'c.jal', 'c.b', 'bz'])
            items.append({'k': 'xfer', 'kind': kind, 'max': 8 if kind in ('call', 'tail') else (2 if kind.startswith('c.') else 4)})
        elif k == 'data':
            d = rng.randrange(4)
            if d == 0:
                d2 = rng.choice(['shorts', 'ints', 'longs', 'longlongs'])
                bits = 8 * {'shorts': 2, 'ints': 4, 'longs': 4, 'longlongs': 8}[d2]
                # documented range of a sequence element: signed or unsigned reading of the width
                items.append({'k': 'seq', 'd': d2, 'vals': [rng.choice([rng.randrange(0, 256), -rng.randrange(1, 200), -(1 << (bits - 1)), (1 << bits) - 1, rng.randrange(0, 1 << bits)])
                                                         for _ in range(rng.randint(1, 4))]})
            elif d == 1:
                nb = rng.randint(1, 5)
                items.append({'k': 'seq', 'd': 'bytes', 'vals': [rng.randrange(-128, 256) for _ in range(nb)]})
                if nb % 2:
                    items.append({'k': 'align', 'n': rng.choice([2, 4])})
            elif d == 2 and rng.random() < 0.25:
                # accepted but undocumented: a pack format without the byte-order character (native mode: `L` is 8 bytes on this host)
                items.append({'k': 'packn', 'fmt': rng.choice(['L', 'l', 'I', 'H', 'Q', 'i']), 'val': rng.randrange(0, 1 << 15)})
            elif d == 2:
                items.append({'k': 'data', 'd': rng.choice(['dh', 'dw', 'dd']), 'val': {'i': rng.choice([rng.randrange(0, 1 << 15), -rng.randrange(1, 1 << 15), -1, -(1 << 15), 0xffff])}})
            else:
                items.append({'k': 'labdata', 'd': rng.choice(['dw', 'dd', 'pack'])})
        elif k == 'align':
            a = rng.choice([2, 4, 4, 8, 16, 32, 64] + ([3, 5, 7] if c['odd_align'] else []))
            items.append({'k': 'align', 'n': a})
        elif k == 'gap':
            g = rng.choice([2, 4, 6, 10, 100, 254, 1000]) if rng.random() > c['big_gap'] else rng.choice([2040, 4090, 5000, 70000, 1 << 20, (1 << 20) + 4096])
            items.append({'k': 'gap', 'n': g})
        elif k == 'labimm':
            items.append({'k': 'labimm', 'max': 8})
        elif k == 'string':
            s = ''.join(rng.choice('abcXYZ 019_') for _ in range(rng.randint(1, 6)) )
            if rng.random() < 0.35:
                s += rng.choice(['é', 'ß', '中', '€', '😀', 'Ω'])        # UTF-8 length differs from the character count
            s = s.lstrip() or 'x'
            if rng.random() < 0.25:
                s = s.rstrip() + rng.choice([' ', '  ', '\t', ' \t '])       # the text runs to the end of the line: trailing blanks belong to it
            items.append({'k': 'string', 'text': s})
            if len(items[-1]['text'].encode('utf-8')) % 2:
                items.append({'k': 'align', 'n': 2})
    # ---- pessimistic offsets, then resolve transfers and label-valued operands
    off = []
    pos = 0
    for it in items:
        off.append(pos)
        if it['k'] == 'labdata':
            pos += 8
        else:
            pos += pess_size(it)
    lab_off = {it['name']: o for it, o in zip(items, off) if it['k'] == 'label'}
    out = []
    for it, o in zip(items, off):
        if it['k'] == 'xfer':
            out.append(make_xfer(rng, it['kind'], o, lab_off))
        elif it['k'] == 'labimm':
            out.append(make_labimm(rng, o, lab_off, names))
        elif it['k'] == 'labdata':
            out.append(make_labdata(rng, it['d'], names))
        else:
            out.append(it)
    return out


def near(rng, o, lab_off, reach):
    c = [l for l, lo in lab_off.items() if abs(lo - o) <= reach]
    return rng.choice(c) if c else None


def make_xfer(rng, kind, o, lab_off):
    if kind in ('b', 'pb1', 'pb2', 'bz'):
        L = near(rng, o, lab_off, REACH['branch'])
    elif kind in ('jal', 'j', 'jalp'):
        L = near(rng, o, lab_off, REACH['jal'])
    elif kind in ('c.j', 'c.jal'):
        L = near(rng, o, lab_off, REACH['c.j'])
    elif kind == 'c.b':
        L = near(rng, o, lab_off, REACH['c.b'])
    else:
        L = near(rng, o, lab_off, REACH['far'])
    if L is None:
        return {'k': 'pseudo', 'm': 'nop', 'ops': []}
    t = {'t': L}
    if kind == 'b':
        return {'k': 'inst', 'm': rng.choice(BRANCHES), 'ops': [R(rng), R(rng), t]}
    if kind == 'bz':   # RVC-eligible branch
        return {'k': 'inst', 'm': rng.choice(['beq', 'bne']), 'ops': [Rc(rng), {'r': 0}, t]}
    if kind == 'pb1':
        return {'k': 'pseudo', 'm': rng.choice(PBRANCH1), 'ops': [R(rng) if rng.random() < 0.5 else Rc(rng), t]}
    if kind == 'pb2':
        return {'k': 'pseudo', 'm': rng.choice(PBRANCH2), 'ops': [R(rng), R(rng), t]}
    if kind == 'jal':
        return {'k': 'inst', 'm': 'jal', 'ops': [{'r': rng.choice([0, 1, 1, 5])}, t]}
    if kind == 'j':
        return {'k': 'pseudo', 'm': 'j', 'ops': [t]}
    if kind == 'jalp':
        return {'k': 'pseudo', 'm': 'jal', 'ops': [t]}
    if kind in ('call', 'tail'):
        return {'k': 'pseudo', 'm': kind, 'ops': [t]}
    if kind in ('c.j', 'c.jal'):
        return {'k': 'inst', 'm': kind, 'ops': [t]}
    return {'k': 'inst', 'm': rng.choice(['c.beqz', 'c.bnez']), 'ops': [Rc(rng), t]}


def make_labimm(rng, o, lab_off, names):
    """an instruction / li whose immediate depends on a label"""
    L = rng.choice(names)
    k = rng.randrange(8)
    rd = {'r': rng.choice([5, 8, 10, 15])}
    base = rng.choice([0x08000000, 0x20000000, 0x1000, 0x7ffff000, 0x800])
    if k == 0:
        return {'k': 'pseudo', 'm': 'li', 'ops': [rd, {'lab': L}]}
    if k == 1:
        return {'k': 'pseudo', 'm': 'li', 'ops': [rd, {'pos': [L, {'i': base}]}]}
    if k == 2:
        return {'k': 'inst', 'm': 'lui', 'ops': [rd, {'hi': {'pos': [L, {'i': base}]}}]}
    if k == 3:
        return {'k': 'inst', 'm': rng.choice(['addi', 'lw', 'ori']), 'ops': [rd, rd, {'lo': {'pos': [L, {'i': base}]}}]}
    if k == 4:
        return {'k': 'inst', 'm': 'sw', 'ops': [rd, {'r': 9}, {'lo': {'lab': L}}]}
    if k == 5:
        return {'k': 'inst', 'm': 'lui', 'ops': [rd, {'hi': {'lab': L}}]}
    if k == 6:
        # L2 - L1 with L2 placed after L1 (non-negative, shrinks toward zero)
        a, b = rng.choice(names), rng.choice(names)
        if lab_off[a] < lab_off[b]:
            a, b = b, a
        if lab_off[a] - lab_off[b] < 2040:
            return {'k': 'inst', 'm': 'addi', 'ops': [rd, rd, {'diff': [a, b]}]}
        return {'k': 'pseudo', 'm': 'li', 'ops': [rd, {'diff': [a, b]}]}
    if lab_off[L] < 2040:
        return {'k': 'inst', 'm': 'addi', 'ops': [rd, {'r': 0}, {'lab': L}]}
    return {'k': 'inst', 'm': 'auipc', 'ops': [rd, {'hi': {'off': L}}]}


def make_labdata(rng, d, names):
    L = rng.choice(names)
    v = rng.choice([{'lab': L}, {'pos': [L, {'i': rng.choice([0x08000000, 0x20000000])}]}])
    if d == 'pack':
        return {'k': 'pack', 'fmt': rng.choice(['<I', '>I', '<Q', '<i']), 'val': v}
    return {'k': 'data', 'd': d, 'val': v}


REG_SPELL = {8: ['s0', 'fp', 'x8', '8'], 2: ['sp', 'x2', '2'], 1: ['ra', 'x1', '1']}


def constify(rng, items, p=0.25):
    """replace some literal integers by named constants and some registers by register-alias constants
    (documented: `W = s0`).  Definitions are inserted at random places (constants are resolved before use)."""
    out = [dict(it) for it in items]
    defs = []
    n = 0
    for it in out:
        if it['k'] not in ('inst', 'pseudo', 'data', 'pack') or it.get('m') == 'fence':
            continue        # fence sets are not among the documented substitution positions (plain int() parsing)
        if it['k'] in ('data', 'pack'):
            if 'i' in it['val'] and rng.random() < p:
                name = 'K%d' % n
                n += 1
                defs.append({'k': 'const', 'name': name, 'value': it['val']['i'], 'text': rng.choice([str, hex])(it['val']['i']) if it['val']['i'] >= 0 else str(it['val']['i'])})
                it['val'] = {'c': name}
            continue
        ops = []
        for o in it['ops']:
            if 'i' in o and rng.random() < p:
                name = 'K%d' % n
                n += 1
                v = o['i']
                defs.append({'k': 'const', 'name': name, 'value': v, 'text': (rng.choice([str, hex])(v) if v >= 0 else str(v))})
                ops.append({'c': name})
            elif 'r' in o and rng.random() < p * 0.6:
                name = 'W%d' % n
                n += 1
                r = o['r']
                defs.append({'k': 'const', 'name': name, 'value': r, 'text': rng.choice(REG_SPELL.get(r, ['x%d' % r, str(r), O.ABI[r]]))})
                ops.append({'cr': name})
            else:
                ops.append(o)
        it['ops'] = ops
    for d in defs:
        out.insert(rng.randrange(len(out) + 1) if rng.random() < 0.3 else 0, d)
    return out
