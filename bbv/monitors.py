"""Observation points P1..P5 (DESIGN.md section 2).  Everything is installed from outside by rebinding
module attributes of the freshly imported target; nothing in /repo is edited.
"""
import hashlib
import os
from collections import Counter

from .refmodel import rv, operands

# --------------------------------------------------------------------------------------
# P1 + P2: one assemble() call observed at the API boundary, with the blob stream


class Obs:
    __slots__ = ('ok', 'out', 'labels', 'constants', 'exc', 'blobs', 'hook_reached')

    def __repr__(self):
        if self.ok:
            return 'Obs(ok, %d bytes, %d labels)' % (len(self.out), len(self.labels or ()))
        return 'Obs(exc=%r)' % (self.exc,)


def exc_info(asm, e):
    """What a caller can see of an exception: class, message, and (for AssemblerError) the line."""
    info = {'type': type(e).__name__, 'is_asm_error': isinstance(e, asm.AssemblerError), 'msg': str(e)[:300]}
    line = getattr(e, 'line', None)
    if line is not None:
        info['file'] = getattr(line, 'file', None)
        info['number'] = getattr(line, 'number', None)
        info['contents'] = str(getattr(line, 'contents', ''))[:200]
        info['msg'] = str(getattr(e, 'message', ''))[:300]
    return info


def observe(asm, src, compress=False, include_dirs=None, tap=True, preseed=None):
    """Run the real assemble() once; record result or exception, label/constant tables, blob stream."""
    o = Obs()
    o.labels, o.constants = {}, {}
    notables = False
    if preseed:
        # a caller-supplied table that already holds entries (re-used from an earlier build, or external symbols)
        o.labels.update(preseed.get('labels', {}))
        o.constants.update(preseed.get('constants', {}))
        if preseed.get('earlier') is not None:
            # an earlier, unrelated build in this interpreter by a caller that passes no tables at all
            try:
                asm.assemble(preseed['earlier'])
            except Exception:  # noqa
                pass
        notables = bool(preseed.get('notables'))
    o.blobs = None
    o.hook_reached = False
    orig = getattr(asm, 'resolve_blobs', None)
    if tap and orig is not None:
        rec = []

        def tapped(items, _orig=orig, _rec=rec):
            try:
                for it in items:
                    _rec.append((it.line.file, it.line.number, bytes(it.data)))
                o.hook_reached = True
            except Exception:
                o.hook_reached = False
            return _orig(items)
        asm.resolve_blobs = tapped
    try:
        kw = {}
        if include_dirs is not None:
            kw['include_dirs'] = include_dirs
        if notables:
            out = asm.assemble(src, compress=compress, **kw)       # this caller does not ask for the tables either
            o.labels = o.constants = None
        else:
            out = asm.assemble(src, labels=o.labels, constants=o.constants, compress=compress, **kw)
        o.ok = True
        o.out = bytes(out)
        o.exc = None
        if tap and orig is not None and o.hook_reached:
            o.blobs = rec
    except Exception as e:  # noqa
        o.ok = False
        o.out = None
        o.exc = exc_info(asm, e)
    finally:
        if tap and orig is not None:
            asm.resolve_blobs = orig
    return o


class Layout:
    """Per-source-line byte chunks of an assembled single-file program.
    chunks[i] = (start_offset, bytes) for 0-based line index i (empty bytes for lines that emit nothing).
    `order_ok` is False when the blob stream was not in source order or not the output."""
    __slots__ = ('obs', 'chunks', 'via', 'order_ok', 'why')


FENCE = '__bbvf%d:'


def layout(asm, lines, compress=False, force_fences=False, eol='\n', preseed=None):
    """Assemble `lines` (one item per line; any line may also be blank/comment) and attribute output bytes
    to source lines.  Primary: blob stream (P2).  Fallback P2': a fence label before every line."""
    lay = Layout()
    src = eol.join(lines) + eol
    obs = observe(asm, src, compress, tap=not force_fences, preseed=preseed)
    lay.obs = obs
    lay.chunks = None
    lay.order_ok = True
    lay.why = ''
    lay.via = None
    if not obs.ok:
        return lay
    n = len(lines)
    if obs.blobs is not None and not force_fences:
        lay.via = 'blobs'
        chunks = [[None, bytearray()] for _ in range(n)]
        pos = 0
        last = 0
        for (_f, num, data) in obs.blobs:
            idx = num - 1
            if not (0 <= idx < n):
                lay.order_ok = False
                lay.why = 'blob attributed to line %r outside the source' % (num,)
                continue
            if idx < last:
                lay.order_ok = False
                lay.why = 'blob of line %d emitted after a blob of line %d' % (num, last + 1)
            last = max(last, idx)
            if chunks[idx][0] is None:
                chunks[idx][0] = pos
            chunks[idx][1].extend(data)
            pos += len(data)
        if b''.join(b for _, _, b in obs.blobs) != obs.out:
            lay.order_ok = False
            lay.why = 'concatenation of the blob stream differs from the returned bytes'
        # lines that emitted nothing sit at the running offset
        run = 0
        out = []
        for st, data in chunks:
            if st is None:
                out.append((run, b''))
            else:
                out.append((st, bytes(data)))
                run = st + len(data)
        lay.chunks = out
        return lay
    # ---- P2' : fences, public API only
    fl = []
    for i, ln in enumerate(lines):
        fl.append(FENCE % i)
        fl.append(ln)
    fl.append(FENCE % n)
    # (the fence offsets come from the label table, so this second build asks for the tables even if the first did not)
    o2 = observe(asm, eol.join(fl) + eol, compress, tap=False, preseed={k: v for k, v in (preseed or {}).items() if k != 'notables'} or None)
    if not o2.ok or o2.out != obs.out:
        lay.why = 'fence-label rendering did not reproduce the build'
        return lay
    lay.via = 'fences'
    offs = [o2.labels.get(FENCE[:-1] % i) for i in range(n + 1)]
    if any(v is None for v in offs) or any(offs[i] > offs[i + 1] for i in range(n)) or offs[n] != len(obs.out):
        lay.order_ok = False
        lay.why = 'fence labels are not monotone over the output'
        return lay
    lay.chunks = [(offs[i], obs.out[offs[i]:offs[i + 1]]) for i in range(n)]
    return lay


def split_insns(data):
    """Split a chunk into instruction encodings: [(offset_in_chunk, size, value)] or None if it does not
    split cleanly (trailing partial instruction)."""
    res = []
    i = 0
    while i < len(data):
        if i + 2 > len(data):
            return None
        h = data[i] | (data[i + 1] << 8)
        if h & 3 == 3:
            if i + 4 > len(data):
                return None
            w = h | (data[i + 2] << 16) | (data[i + 3] << 24)
            res.append((i, 4, w))
            i += 4
        else:
            res.append((i, 2, h))
            i += 2
    return res


# --------------------------------------------------------------------------------------
# P3: encoder postcondition  decode(result) == (mnemonic, operands)

class EncoderMonitor:
    """Wraps every entry of asm.INSTRUCTIONS.  For each call that returns, the independent decoder must
    give back exactly the mnemonic and the operands the caller named."""

    def __init__(self, asm):
        self.asm = asm
        self.calls = Counter()
        self.bad = []          # (mnemonic, args, kwargs, result, decoded, expected)
        self.unknown = Counter()
        self._orig = None

    def install(self):
        asm = self.asm
        self._orig = dict(asm.INSTRUCTIONS)
        for name, f in list(asm.INSTRUCTIONS.items()):
            asm.INSTRUCTIONS[name] = self._wrap(name, f)
        return self

    def remove(self):
        if self._orig is not None:
            self.asm.INSTRUCTIONS.update(self._orig)
            self._orig = None

    def __enter__(self):
        return self.install()

    def __exit__(self, *a):
        self.remove()

    def _wrap(self, name, f):
        mon = self

        def enc(*args, **kwargs):
            code = f(*args, **kwargs)
            mon.check(name, args, kwargs, code)
            return code
        enc.__wrapped__ = f
        return enc

    def check(self, name, args, kwargs, code):
        self.calls[name] += 1
        if name not in operands.FORMATS:
            self.unknown[name] += 1
            return
        status, exp = operands.expected(name, args, kwargs.get('aq', 0), kwargs.get('rl', 0))
        dec = decode_any(name, code)
        if status == operands.REJECT:
            self.bad.append((name, list(args), dict(kwargs), code, dec, 'operands are not representable: must be refused'))
        elif dec != exp:
            self.bad.append((name, list(args), dict(kwargs), code, dec, exp))


def decode_any(name, code):
    """decode an encoder result by the width the mnemonic implies"""
    if not isinstance(code, int) or isinstance(code, bool) or code < 0:
        return ('not-an-encoding', repr(code))
    if name.startswith('c.'):
        if code > 0xffff:
            return ('not-16-bit', code)
        k, i = rv.decode16(code)
        return i if k == 'legal' else (k, None)
    if code > 0xffffffff:
        return ('not-32-bit', code)
    return rv.decode32(code)


# --------------------------------------------------------------------------------------
# P4: pass tracing (diagnostic / coverage only, never verdict deciding)

PASSES = ['resolve_constants', 'resolve_labels', 'resolve_register_aliases', 'transform_compressible',
          'transform_pseudo_instructions', 'resolve_aligns', 'resolve_immediates', 'resolve_instructions',
          'resolve_strings', 'resolve_sequences', 'transform_shorthand_packs', 'resolve_packs',
          'resolve_include_bytes', 'resolve_blobs']
FRONT = ['read_lines', 'lex_tokens', 'parse_item']


class PassTrace:
    """Records, per pass invocation, how many labels moved (label-table snapshot before/after)."""

    def __init__(self, asm):
        self.asm = asm
        self.events = []       # (pass name, n_items_in, n_labels_moved)
        self._orig = {}

    def __enter__(self):
        asm = self.asm
        for p in PASSES:
            f = getattr(asm, p, None)
            if f is None:
                continue
            self._orig[p] = f
            setattr(asm, p, self._wrap(p, f))
        return self

    def __exit__(self, *a):
        for p, f in self._orig.items():
            setattr(self.asm, p, f)
        self._orig = {}

    def _wrap(self, p, f):
        tr = self

        def w(*args, **kw):
            labels = None
            for a in args[1:]:
                if isinstance(a, dict):
                    labels = a      # last dict argument is the label table for passes that take one
            before = dict(labels) if labels is not None and p not in ('resolve_constants', 'resolve_register_aliases') else None
            try:
                n_in = len(args[0])
            except Exception:
                n_in = -1
            res = f(*args, **kw)
            moved = 0
            if before is not None:
                moved = sum(1 for k, v in labels.items() if k in before and before[k] != v)
            tr.events.append((p, n_in, moved))
            return res
        return w

    def passes_that_moved_labels(self):
        return [p for (p, _n, m) in self.events if m]


# --------------------------------------------------------------------------------------
# P5: digest of the module-level tables

TABLES = ['REGISTERS', 'INSTRUCTIONS', 'PSEUDO_INSTRUCTIONS', 'BASE_OFFSET_INSTRUCTIONS', 'NUMERIC_SEQUENCE_NAMES',
          'SHORTHAND_PACK_NAMES', 'KEYWORDS', 'R_TYPE_INSTRUCTIONS', 'I_TYPE_INSTRUCTIONS', 'IE_TYPE_INSTRUCTIONS',
          'S_TYPE_INSTRUCTIONS', 'B_TYPE_INSTRUCTIONS', 'U_TYPE_INSTRUCTIONS', 'J_TYPE_INSTRUCTIONS',
          'FENCE_INSTRUCTIONS', 'A_TYPE_INSTRUCTIONS', 'AL_TYPE_INSTRUCTIONS', 'CR_TYPE_INSTRUCTIONS',
          'CRJ_TYPE_INSTRUCTIONS', 'CRE_TYPE_INSTRUCTIONS', 'CI_TYPE_INSTRUCTIONS', 'CIA_TYPE_INSTRUCTIONS',
          'CIN_TYPE_INSTRUCTIONS', 'CSS_TYPE_INSTRUCTIONS', 'CIW_TYPE_INSTRUCTIONS', 'CL_TYPE_INSTRUCTIONS',
          'CS_TYPE_INSTRUCTIONS', 'CA_TYPE_INSTRUCTIONS', 'CB_TYPE_INSTRUCTIONS', 'CJ_TYPE_INSTRUCTIONS']


def tables_digest(asm):
    """Digest of every module-level dict / set / list of the assembler module (contents by key and by the
    identity of function values) - any in-place mutation by a call shows as a changed digest."""
    h = hashlib.sha1()
    # the semantic tables the property names (registers, instruction maps, keyword sets); a cache a refactoring may add
    # under another name is deliberately not digested - only results decide about it
    names = sorted(n for n in TABLES if isinstance(getattr(asm, n, None), (dict, set, frozenset, list)))
    for n in names:
        v = getattr(asm, n)
        h.update(n.encode())
        if isinstance(v, dict):
            for k in sorted(v, key=repr):
                val = v[k]
                h.update(repr(k).encode())
                h.update((repr(val) if isinstance(val, (int, str, bytes, tuple)) else str(id(val))).encode())
        else:
            for k in sorted(v, key=repr) if not isinstance(v, list) else v:
                h.update(repr(k).encode() if isinstance(k, (int, str, bytes, tuple)) else str(id(k)).encode())
    return h.hexdigest(), len(names)


# --------------------------------------------------------------------------------------
# P8: which functions of the target did a workload actually enter (evidence only)

class FunctionCoverage:
    """sys.monitoring PY_START on code objects defined in the target package; each code object reports once (DISABLE)."""

    TOOL = 4

    def __init__(self, repo_dir):
        self.repo = repo_dir.rstrip('/') + '/bronzebeard/'
        self.seen = set()
        self.on = False

    def __enter__(self):
        import sys
        mon = getattr(sys, 'monitoring', None)
        if mon is None:
            return self
        try:
            mon.use_tool_id(self.TOOL, 'bbv-cover')
        except ValueError:
            return self

        def start(code, offset):
            if code.co_filename.startswith(self.repo):
                self.seen.add('%s:%s' % (code.co_filename[len(self.repo):], code.co_qualname))
            return mon.DISABLE
        mon.register_callback(self.TOOL, mon.events.PY_START, start)
        mon.set_events(self.TOOL, mon.events.PY_START)
        self.on = True
        return self

    def __exit__(self, *a):
        import sys
        if self.on:
            mon = sys.monitoring
            mon.set_events(self.TOOL, 0)
            mon.register_callback(self.TOOL, mon.events.PY_START, None)
            mon.free_tool_id(self.TOOL)
            self.on = False
