"""Simulated DfuSe device behind a fake `usb` package + virtual clock (observation point P7).

Device model written from DFU 1.1 (state machine, GETSTATUS payload, bwPollTimeout) and ST UM0424 / AN3156
(DfuSe in-band commands: 0x41 erase page, 0x21 set address pointer, wValue >= 2 program at pointer), with NOR
flash semantics (erase -> 0xFF, program = AND).  The real bronzebeard.dfu.cli_main() runs against it in-process.
"""
import contextlib
import importlib
import io
import os
import struct
import sys
import tempfile
import traceback
import types

FLASH_BASE = 0x08000000
PAGE = 1024
IDLE, DNLOAD_SYNC, DNBUSY, DNLOAD_IDLE, ERROR = 2, 3, 4, 5, 10
VARIANTS = {'B': 128, '8': 64, '6': 32, '4': 16}


class USBError(IOError):
    pass


POLL_BUDGET = 2000


class Stuck(BaseException):
    """raised into the tool by the simulated device when the bounded-progress budget is exhausted (not an `Exception`: the tool's own
    handlers must not swallow it)"""


class Device:
    """busy[k] = list of poll delays (ms) for the k-th DNLOAD operation: each entry is one GETSTATUS answered with
    dfuDNBUSY; `final_delay[k]` is the bwPollTimeout sent with the completing answer.  errors[k] = status code the
    k-th operation completes with.  stall_in_error: spec behaviour (any DNLOAD while in dfuERROR is stalled)."""

    def __init__(self, variant='4', pattern_seed=1, busy=None, final_delay=None, errors=None, start_error=False,
                 stall_in_error=True, default_busy=(0,), sn=None, error_state=ERROR):
        self.pages = VARIANTS[variant]
        real = (sn or ('3C' + variant + 'J')).encode('utf-8')
        self.serial_number = real.decode('utf-16-le')
        import random
        rng = random.Random(pattern_seed)
        self.initial = bytes(rng.randrange(1, 255) for _ in range(PAGE)) * self.pages
        self.flash = bytearray(self.initial)
        self.busy = busy or {}
        self.final_delay = final_delay or {}
        self.default_busy = list(default_busy)
        self.errors = errors or {}
        self.stall_in_error = stall_in_error
        self.error_state = error_state      # state announced together with an error status (nonconforming devices: dfuDNLOAD-IDLE, dfuIDLE, or dfuDNBUSY followed by an all-clear)
        self.state = ERROR if start_error else IDLE
        self.status = 14 if start_error else 0
        self.now = 0.0
        self.not_before = 0.0
        self.pointer = None
        self.pending = None
        self.busy_left = []
        self.nops = 0
        self.log = []            # (time, kind, detail)
        self.violations = []
        self.page_events = {}    # page -> list of 'E' / 'P'
        self.dnloads = 0
        self.error_reports = []  # (op index, status) actually delivered to the host in a GETSTATUS reply
        self.sleeps = []
        self.clear_count = 0
        self.gone = False
        self.idle_polls = 0      # consecutive GETSTATUS requests answered while nothing was pending

    # ---- virtual clock
    def sleep(self, t):
        self.sleeps.append(t)
        if t < 0:
            self.violations.append('negative sleep %r' % (t,))
            return
        self.now += t

    # ---- usb
    def ctrl_transfer(self, bmRequestType, bRequest, wValue=0, wIndex=0, data_or_wLength=None, timeout=None):
        if self.now + 1e-9 < self.not_before:
            self.violations.append('request %d issued at t=%.6fs, before the announced poll delay ended (t=%.6fs)' % (bRequest, self.now, self.not_before))
        if self.gone:
            self.log.append((self.now, 'REQUEST-%d-AFTER-LEAVE' % bRequest, None))
            raise USBError('[Errno 19] No such device (it may have been disconnected)')
        if bRequest == 3:
            if self.pending is None and self.state not in (DNLOAD_SYNC, DNBUSY):
                self.idle_polls += 1
                if self.idle_polls > POLL_BUDGET:
                    # bounded progress instead of "eventually": a tool that keeps asking a device that has nothing left to do never ends
                    raise Stuck('the tool polled GETSTATUS %d times in a row while the device had no operation pending (state %d): '
                                'it waits for something that will not happen' % (self.idle_polls, self.state))
            else:
                self.idle_polls = 0
            return self.getstatus(bmRequestType, data_or_wLength)
        self.idle_polls = 0
        if bRequest == 4:
            self.log.append((self.now, 'CLRSTATUS', None))
            self.clear_count += 1
            if self.state == ERROR:
                self.state, self.status = IDLE, 0
            return 0
        if bRequest == 1:
            return self.dnload(wValue, bytes(data_or_wLength))
        if bRequest == 6:
            self.state = IDLE
            return 0
        if bRequest == 5:
            return bytes([self.state])
        # DETACH / UPLOAD / anything else: nothing the property forbids; logged only
        self.log.append((self.now, 'REQUEST-%d' % bRequest, None))
        if bRequest == 2:
            return bytes(data_or_wLength if isinstance(data_or_wLength, int) else 0)
        return 0

    def dnload(self, wValue, data):
        self.dnloads += 1
        self.log.append((self.now, 'DNLOAD', (wValue, data[:5].hex(), len(data))))
        if self.state in (DNLOAD_SYNC, DNBUSY):
            self.violations.append('DNLOAD #%d issued while the previous operation had not been completed by GETSTATUS (state %d)' % (self.dnloads, self.state))
        if self.state == ERROR:
            if self.stall_in_error:
                raise USBError('[Errno 32] Pipe error (device stalled the request: it is in dfuERROR)')
            # lenient device: silently leaves the error state and carries on
            self.state, self.status = IDLE, 0
        if len(data) == 0:
            # zero-length DNLOAD = end of download / DfuSe "leave": no erase, no write; the bootloader manifests, jumps to the address
            # pointer and is gone from the bus - every later request fails the way pyusb reports a vanished device
            self.log.append((self.now, 'LEAVE', None))
            self.state = IDLE
            self.gone = True
            return 0
        self.pending = (wValue, data)
        k = self.nops
        self.busy_left = list(self.busy.get(k, self.default_busy))
        self.state = DNLOAD_SYNC
        return len(data)

    def getstatus(self, bm, length):
        self.log.append((self.now, 'GETSTATUS', self.state))
        delay = 0
        if self.state in (DNLOAD_SYNC, DNBUSY):
            if self.busy_left:
                delay = self.busy_left.pop(0)
                self.state = DNBUSY
                self.not_before = self.now + delay / 1000.0
                return struct.pack('<BBBBBB', 0, delay & 0xff, (delay >> 8) & 0xff, (delay >> 16) & 0xff, DNBUSY, 0)
            k = self.nops
            self.nops += 1
            op = self.pending
            self.pending = None
            err = self.errors.get(k)
            if err is None:
                err = self.apply(op)
            if err:
                self.state, self.status = self.error_state, err
                self.error_reports.append((k, err))
            else:
                self.state, self.status = DNLOAD_IDLE, 0
            delay = self.final_delay.get(k, 0)
        self.not_before = self.now + delay / 1000.0
        reply = struct.pack('<BBBBBB', self.status, delay & 0xff, (delay >> 8) & 0xff, (delay >> 16) & 0xff, self.state, 0)
        if self.status and self.state != ERROR:
            self.status = 0          # the nonconforming device reports the failure once and carries on
            if self.state == DNBUSY:
                # ... it said "error, still busy": the next poll finds the operation over and nothing to report any more
                self.state = DNLOAD_IDLE
        return reply

    def apply(self, op):
        wValue, d = op
        if wValue == 0:
            if len(d) == 5 and d[0] == 0x41:
                addr = struct.unpack('<I', d[1:5])[0]
                a = addr - FLASH_BASE
                if a < 0 or a + PAGE > len(self.flash) or a % PAGE:
                    self.violations.append('erase address %#x outside the device flash [%#x, %#x)' % (addr, FLASH_BASE, FLASH_BASE + len(self.flash)))
                    return 8
                self.flash[a:a + PAGE] = b'\xff' * PAGE
                self.page_events.setdefault(a // PAGE, []).append('E')
                return 0
            if len(d) == 5 and d[0] == 0x21:
                addr = struct.unpack('<I', d[1:5])[0]
                if addr < FLASH_BASE or addr >= FLASH_BASE + len(self.flash):
                    self.violations.append('address pointer %#x outside the device flash' % addr)
                    return 8
                self.pointer = addr - FLASH_BASE
                return 0
            if len(d) == 1 and d[0] == 0x41:
                self.flash[:] = b'\xff' * len(self.flash)
                for p in range(self.pages):
                    self.page_events.setdefault(p, []).append('E')
                return 0
            self.violations.append('unknown DfuSe command %s' % d[:5].hex())
            return 15
        if wValue == 1:
            self.violations.append('DNLOAD with wValue=1 is reserved in DfuSe')
            return 15
        if self.pointer is None:
            self.pointer = 0          # DfuSe bootloaders start with the pointer at the flash base
        a = self.pointer + (wValue - 2) * PAGE
        if a < 0 or a + len(d) > len(self.flash):
            self.violations.append('write of %d bytes at %#x runs outside the device flash' % (len(d), FLASH_BASE + a))
            return 8
        for i, b in enumerate(d):
            self.flash[a + i] &= b
        for p in range(a // PAGE, (a + max(1, len(d)) - 1) // PAGE + 1):
            self.page_events.setdefault(p, []).append('P')
        return 0


_DFU = None
_DFU_O = None


def load_dfu(optimize=False):
    """import bronzebeard.dfu from the working tree with the fake usb package in place.
    optimize: the module as `python -O` runs it (compiled from the same source with assert statements removed)"""
    global _DFU, _DFU_O
    if optimize:
        if _DFU_O is None:
            base = load_dfu()
            path = base.__file__
            with open(path) as f:
                code = compile(f.read(), path, 'exec', optimize=1, dont_inherit=True)
            mod = types.ModuleType('bronzebeard.dfu')
            mod.__file__ = path
            mod.__package__ = 'bronzebeard'
            exec(code, mod.__dict__)
            _DFU_O = mod
        return _DFU_O
    if _DFU is not None:
        return _DFU
    from . import core
    core.load_asm()          # puts the repository first on sys.path and drops cached bronzebeard modules
    usb = types.ModuleType('usb')
    ucore = types.ModuleType('usb.core')
    ube = types.ModuleType('usb.backend')
    l1 = types.ModuleType('usb.backend.libusb1')
    ucore.USBError = USBError
    ucore.find = lambda **kw: None
    l1.get_backend = lambda **kw: None
    usb.core, usb.backend, ube.libusb1 = ucore, ube, l1
    sys.modules.update({'usb': usb, 'usb.core': ucore, 'usb.backend': ube, 'usb.backend.libusb1': l1})
    sys.modules.pop('bronzebeard.dfu', None)
    dfu = importlib.import_module('bronzebeard.dfu')
    here = os.path.realpath(dfu.__file__)
    if not here.startswith(os.path.realpath(core.repo_dir()) + os.sep):
        raise RuntimeError('bronzebeard.dfu imported from %s' % here)
    _DFU = dfu
    return dfu


class _Terminal(io.StringIO):
    def isatty(self):
        return True


class Run:
    __slots__ = ('dev', 'stdout', 'code', 'crash', 'done_printed', 'stuck')


_TMP = None


def run(firmware, dev, device_id='28e9:0189', via_fifo=False, optimize=False, tty=False):
    """run the real cli_main against `dev`; via_fifo: the firmware path is a named pipe fed by a writer thread"""
    dfu = load_dfu(optimize)
    tmp = tempfile.mkdtemp(prefix='bbv-dfu-')          # one scratch directory per run, removed in the `finally` below
    path = os.path.join(tmp, 'fw-%d.bin' % os.getpid())
    writer = None
    if via_fifo:
        import threading
        path = os.path.join(tmp, 'fw-%d.fifo' % os.getpid())
        if os.path.exists(path):
            os.unlink(path)
        os.mkfifo(path)

        def feed():
            try:
                with open(path, 'wb') as f:
                    f.write(firmware)
            except OSError:
                pass
        writer = threading.Thread(target=feed, daemon=True)
        writer.start()
    else:
        with open(path, 'wb') as f:
            f.write(firmware)
    sys.modules['usb.core'].find = lambda **kw: dev
    clock = types.SimpleNamespace(sleep=dev.sleep, time=lambda: dev.now)
    dfu.time = clock
    old_argv = sys.argv
    sys.argv = ['bronzebeard-dfu', device_id, path]
    buf = _Terminal() if tty else io.StringIO()       # (a tool may draw its progress differently on a terminal: what it reports must not depend on it)
    r = Run()
    r.dev = dev
    r.code = 0
    r.crash = None
    r.stuck = None
    try:
        with contextlib.redirect_stdout(buf), contextlib.redirect_stderr(buf):
            dfu.cli_main()
    except SystemExit as e:
        r.code = e.code if e.code is not None else 0
        if not isinstance(r.code, int):
            buf.write(str(r.code))        # python prints a non-int exit argument to stderr and exits 1
            r.code = 1
    except Stuck as e:
        r.stuck = str(e)          # the real tool would still be running: neither an exit status nor a last line of output exists
        r.code = None
    except BaseException:  # noqa: an uncaught exception = traceback on stderr + exit status 1
        r.crash = traceback.format_exc()
        buf.write(r.crash)
        r.code = 1
    finally:
        sys.argv = old_argv
        if writer is not None:
            # the tool may refuse without ever opening the pipe: unblock the writer, then drop the pipe
            try:
                fd = os.open(path, os.O_RDONLY | os.O_NONBLOCK)
                os.close(fd)
            except OSError:
                pass
            writer.join(timeout=5)
            try:
                os.unlink(path)
            except OSError:
                pass
        import shutil
        shutil.rmtree(tmp, ignore_errors=True)
    r.stdout = buf.getvalue()
    r.done_printed = 'done!' in r.stdout
    return r
