"""C18 - a completed DFU run leaves flash equal to the image.  DESIGN.md section 4 / C18.

The real bronzebeard.dfu.cli_main() runs against the simulated DfuSe device (bbv/dfusim.py); the oracle reads the
device's flash array, per-page erase/program event lists, request log and virtual clock afterwards.
"""
import random
import time

from .. import core, dfusim

ID = 'C18'
LEVEL = 'exploration'
RULE = ('firmware lengths: all 0..16385 on the 16-page variant (thorough; quick: every length within 3 of a page boundary plus a '
        'stride), boundary lengths {0,1,k*1024-1,k*1024,k*1024+1,size-1,size} + seeded random on the 32/64/128-page variants; x busy '
        'schedules (0-3 dfuDNBUSY polls per erase / set-address / write, in half of the heavy schedules one operation with 99-1500 of them, poll delays from {0,1,50,255,65536,2^24-1} ms, also on the '
        'completing answer) x device starting idle / in dfuERROR.  One case = one complete run of the tool.  Non-trivial = a run that '
        'sent at least one erase and one write request; distinct by (variant, length, schedule seed, start state).')
ASSUMPTIONS = ['device model per DFU 1.1 + ST DfuSe (UM0424/AN3156); NOR flash: erase -> 0xFF, program = AND',
               'only the GD32 vid:pid (28e9:0189) is in scope: the tool has no page geometry for any other device']

DELAYS = [0, 1, 50, 255, 65536, (1 << 24) - 1]


def schedule(rng, nops, heavy):
    busy, final = {}, {}
    slow = rng.randrange(nops) if heavy and nops and rng.random() < 0.5 else None
    for k in range(nops):
        n = rng.choice([0, 1, 1, 2, 3]) if heavy or rng.random() < 0.3 else 1
        busy[k] = [rng.choice(DELAYS) for _ in range(n)]
        if k == slow:
            # one operation of the run keeps the device busy for a long time: hundreds of dfuDNBUSY answers (a slow or worn flash
            # sector, a mass erase) - the tool has to keep asking for as long as it takes
            busy[k] = [rng.choice([0, 0, 1]) for _ in range(rng.choice([99, 100, 101, 150, 257, 400, 1000, 1500]))]
        if rng.random() < 0.2:
            final[k] = rng.choice(DELAYS)
    return busy, final


def run_case(acc, case):
    variant, length = case['variant'], case['len']
    rng = random.Random('c18-%s-%d-%d' % (variant, length, case['sched']))
    pages_total = dfusim.VARIANTS[variant]
    fw = bytes(rng.randrange(256) for _ in range(min(length, 4096)))
    if length > 4096:
        fw = (fw * (length // 4096 + 1))[:length]
    # content classes: the image is data, not text - runs of 0x00 / 0xff at either end or covering whole pages must be flashed too
    content = ['random', 'zero-tail', 'ff-tail', 'zero-head', 'all-zero', 'all-ff', 'zero-page-inside', 'random'][case['sched'] % 8]
    if length and content != 'random':
        fwb = bytearray(fw)
        run = min(length, rng.choice([1, 2, 600, 1024, 1025, 2048, 3000]))
        if content == 'zero-tail':
            fwb[length - run:] = bytes(run)
        elif content == 'ff-tail':
            fwb[length - run:] = b'\xff' * run
        elif content == 'zero-head':
            fwb[:run] = bytes(run)
        elif content == 'all-zero':
            fwb[:] = bytes(length)
        elif content == 'all-ff':
            fwb[:] = b'\xff' * length
        elif content == 'zero-page-inside' and length > 2048:
            p0 = 1024 * rng.randrange(0, length // 1024)
            fwb[p0:p0 + 1024] = bytes(min(1024, length - p0))
        fw = bytes(fwb)
    core.see(acc, 'firmware_content_classes', content)
    # make sure the image is not trivially equal to erased / zero flash
    npages = -(-length // dfusim.PAGE)
    busy, final = schedule(rng, 3 * npages + 2, case.get('heavy', False))
    dev = dfusim.Device(variant, pattern_seed=case['sched'], busy=busy, final_delay=final, start_error=case.get('start_error', False))
    fifo = case['sched'] % 11 == 5
    optimize = case['sched'] % 5 == 2          # the module as `python -O` runs it
    acc['ctr']['runs_without_asserts'] += optimize
    # the id on the command line is two hexadecimal numbers: every spelling of 28e9:0189 names the same device
    dev_id = ['28e9:0189', '28E9:0189', '0x28e9:0x0189', '28e9:189', '028e9:00189', '28e9:0189'][case['sched'] % 6]
    core.see(acc, 'device_id_spellings', dev_id)
    tty = (len(fw) + dev.pages) % 3 == 1
    acc['ctr']['runs_on_a_terminal'] += tty
    r = dfusim.run(fw, dev, device_id=dev_id, via_fifo=fifo, optimize=optimize, tty=tty)
    core.see(acc, 'firmware_delivery', 'named pipe' if fifo else 'regular file')
    acc['n'] += 1
    acc['ctr']['requests_seen'] += len(dev.log)
    acc['ctr']['sleeps_seen'] += len(dev.sleeps)
    acc['ctr']['busy_polls_scheduled'] += sum(len(v) for k, v in busy.items() if k < dev.nops)
    core.see(acc, 'variants', variant)
    if npages:
        acc['ntkeys'].add(core.ckey(variant, length, case['sched'], case.get('start_error', False)))
    probs = []
    if r.stuck:
        probs.append('the run never ends: ' + r.stuck)
    elif r.code != 0:
        probs.append('run did not complete: exit %r, output tail %r' % (r.code, r.stdout[-160:]))
    else:
        padded = npages * dfusim.PAGE
        want = fw + b'\x00' * (padded - length)
        if bytes(dev.flash[:padded]) != want:
            first = next(i for i in range(padded) if dev.flash[i] != want[i])
            probs.append('flash differs from the zero-padded image at offset %d (page %d): %#04x, expected %#04x' % (first, first // 1024, dev.flash[first], want[first]))
        if bytes(dev.flash[padded:]) != dev.initial[padded:]:
            first = next(i for i in range(padded, len(dev.flash)) if dev.flash[i] != dev.initial[i])
            probs.append('flash beyond the image was modified at offset %d (page %d of %d image pages)' % (first, first // 1024, npages))
        for p, ev in sorted(dev.page_events.items()):
            if p >= npages:
                probs.append('page %d erased/programmed (%s) although the image has %d pages' % (p, ''.join(ev), npages))
            if 'P' in ev and ('E' not in ev or ev.index('P') < ev.index('E')):
                probs.append('page %d programmed before being erased (%s)' % (p, ''.join(ev)))
            if ev.count('P') > 1:
                probs.append('page %d programmed %d times' % (p, ev.count('P')))
        for p in range(npages):
            if 'P' not in dev.page_events.get(p, []):
                probs.append('page %d never programmed' % p)
    probs += dev.violations[:4]
    if case.get('start_error') and dev.clear_count == 0 and r.code == 0:
        probs.append('device started in dfuERROR and was never sent CLRSTATUS')
    for p in probs[:3]:
        core.add_viol(acc, 'variant %s (%d pages), firmware %d bytes, schedule %d%s: %s' % (
            variant, pages_total, length, case['sched'], ', starts in dfuERROR' if case.get('start_error') else '', p), case,
            {'requests': [list(map(str, e)) for e in dev.log[:12]], 'stdout_tail': r.stdout[-300:]})
    if case.get('sample'):
        core.add_sample(acc, {'variant_pages': pages_total, 'firmware_len': length, 'requests': len(dev.log), 'dnloads': dev.dnloads,
                              'virtual_seconds_slept': round(dev.now, 3), 'first_requests': [list(map(str, e)) for e in dev.log[:6]]})


def run_shard(sh, deadline):
    acc = core.new_acc()
    dfusim.load_dfu()
    for i, case in enumerate(sh['cases']):
        if i == 0:
            case = dict(case, sample=True)
        run_case(acc, case)
        if time.time() > deadline:
            acc['truncated'] += 1
            break
    return acc


def plan(tier, seed):
    cases = []
    size16 = 16 * 1024
    if tier == 'thorough':
        lens16 = list(range(0, size16 + 1))
    else:
        lens16 = sorted(set([l for k in range(17) for l in range(k * 1024 - 3, k * 1024 + 4) if 0 <= l <= size16] + list(range(0, size16, 7))))
    for l in lens16:
        cases.append({'variant': '4', 'len': l, 'sched': seed * 1000003 + l, 'heavy': l % 5 == 0, 'start_error': l % 7 == 3})
    rng = random.Random('c18-plan-%d' % seed)
    for v, pages in (('6', 32), ('8', 64), ('B', 128)):
        size = pages * 1024
        ls = {0, 1, size - 1, size, size - 1024, size - 1023, size - 1025}
        ks = range(1, pages + 1) if tier == 'thorough' else [1, 2, pages // 2, pages - 1, pages]
        for k in ks:
            ls |= {k * 1024 - 1, k * 1024, min(size, k * 1024 + 1)}
        ls |= {rng.randrange(0, size + 1) for _ in range(20 if tier == 'quick' else 200)}
        for l in sorted(ls):
            for rep in range(1 if tier == 'quick' else 2):
                cases.append({'variant': v, 'len': l, 'sched': seed * 7919 + l + rep, 'heavy': rep == 1 or l % 3 == 0, 'start_error': (l + rep) % 5 == 1})
        if tier == 'thorough':
            # the quantifier says "all firmware lengths from 0 to the flash size": every length of every variant, one schedule each
            for l in range(0, size + 1):
                if l not in ls:
                    cases.append({'variant': v, 'len': l, 'sched': seed * 104729 + l, 'heavy': l % 11 == 0, 'start_error': l % 13 == 5})
    nsh = 64 if tier == 'quick' else 1024
    cases.sort(key=lambda c: -c['len'])
    shards = [{'cases': cases[i::nsh]} for i in range(nsh)]
    return {'shards': shards, 'budget_s': 300 if tier == 'quick' else 5400, 'extra_cov': {'runs_planned': len(cases)},
            'exhaustive': False}


def gates(acc, tier):
    g = []
    if len(acc['seen'].get('variants', ())) != 4:
        g.append('not all four GD32 variants were exercised')
    if acc['ctr']['requests_seen'] == 0:
        g.append('the simulated device saw no request (fake usb module not reached)')
    if acc['ctr']['sleeps_seen'] == 0:
        g.append('the virtual clock was never advanced (dfu.time not reached)')
    return g


def replay(case):
    acc = core.new_acc()
    dfusim.load_dfu()
    run_case(acc, {k: v for k, v in case.items() if k != 'sample'})
    return acc
