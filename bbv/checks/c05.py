"""C05 - pseudo-instructions do what the instruction reference documents, and nothing else.  DESIGN.md 4 / C05.

The bytes emitted for a pseudo-instruction line are executed on the reference ISS from corner and random
register files and compared with an effect function written from docs/instruction_reference.rst (sem.py).
"""
import random
import time

from .. import core, progcheck, sem
from ..gen import program as P, randprog

ID = 'C05'
LEVEL = 'exploration'
RULE = ('programs of pseudo-instruction lines: all 27 pseudo-instructions x register choices incl. rd = rs, x0, sp, link registers, '
        'registers named through alias constants, compress off/on; conditional pseudo-branches executed with operand pairs that make '
        'the condition true and false; li over boundary values (every upper-bit class x 0/0x7ff/0x800/0xfff/0x1000 patterns, 2^31+-k, '
        '2^32-k, negative / hex spellings) and seeded random 32-bit values, batched 200 per program; j/jal/call/tail over near, '
        'far (> 1 MiB) and backward targets.  Each case = one pseudo-instruction line of an assembled build, executed from several '
        'register files.  Non-trivial = executed and compared; distinct by (line text, compress, offset).')
ASSUMPTIONS = ['reference ISS per the RISC-V unprivileged spec', 'documented effects: the Description column and expansion tables of docs/instruction_reference.rst']

REGS = [0, 1, 2, 5, 6, 8, 9, 15, 16, 31]


def li_values(rng, n):
    vals = []
    ups = [0, 1, 2, 0x7ffff, 0x80000, 0xfffff, 0xffffe, 0x12345, 0x55555, 0xaaaaa]
    lows = [0, 1, 0x7fe, 0x7ff, 0x800, 0x801, 0xffe, 0xfff]
    for u in ups:
        for l in lows:
            vals.append((u << 12) | l)
    vals += [0, 1, -1, 2047, 2048, 2049, -2047, -2048, -2049, 4095, 4096, 4097, -4096, -4097, 0x7fffffff, 0x80000000, 0x80000001,
             0xffffffff, 0xfffffffe, -0x80000000, -0x7fffffff, 0x7ffff7ff, 0x7ffff800, 0x7ffff801, 0x7fffffff, 0x80000800, 0x800007ff,
             31, 32, -32, -33, 63, 0x1f000, 0x20000, 0xfffe0000, 0xfffdf000]
    while len(vals) < n:
        c = rng.random()
        if c < 0.5:
            vals.append(rng.getrandbits(32))
        elif c < 0.7:
            vals.append(-rng.getrandbits(31))
        elif c < 0.85:
            vals.append((rng.getrandbits(20) << 12) | rng.choice(lows))
        else:
            vals.append(rng.randrange(-4200, 4200))
    rng.shuffle(vals)
    return vals[:n]


def li_program(rng, n):
    items = []
    for v in li_values(rng, n):
        items.append({'k': 'pseudo', 'm': 'li', 'ops': [{'r': rng.choice(REGS)}, {'i': v}]})
    return items


def li_render(rng, items):
    """li values spelled in decimal or hex (negative and > 2^31 spellings)"""
    lines = []
    for it in items:
        if it['k'] == 'pseudo' and it['m'] == 'li' and 'i' in it['ops'][1]:
            v = it['ops'][1]['i']
            k = rng.randrange(3)
            s = str(v) if k == 0 else (('-' if v < 0 else '') + hex(abs(v)))
            lines.append('li %s, %s' % (P.r_op(it['ops'][0]), s))
        else:
            lines.append(P.r_item(it))
    return lines


def data_items(rng):
    """data of even size between the instructions: what follows must know exactly how large it is"""
    c = rng.randrange(6)
    if c == 0:
        d = rng.choice(['shorts', 'ints', 'longs', 'longs', 'longlongs'])
        return [{'k': 'seq', 'd': d, 'vals': [rng.randrange(0, 1 << 15) for _ in range(rng.randint(1, 3))]}]
    if c == 1:
        return [{'k': 'seq', 'd': 'bytes', 'vals': [rng.randrange(0, 256) for _ in range(2 * rng.randint(1, 3))]}]
    if c == 2:
        return [{'k': 'packn', 'fmt': rng.choice(['L', 'Q', 'H', 'I']), 'val': rng.randrange(0, 1 << 15)}]
    if c == 3:
        return [{'k': 'data', 'd': rng.choice(['dh', 'dw', 'dd']), 'val': {'i': rng.randrange(0, 1 << 15)}}]
    if c == 4:
        return [{'k': 'string', 'text': rng.choice(['\u00e9', 'ab\u20acx', 'okay', 'q\u4e2dz '])}]
    return [{'k': 'seq', 'd': 'bytes', 'vals': [rng.randrange(0, 256) for _ in range(rng.choice([1, 3]))]}, {'k': 'align', 'n': 2}]


def misc_program(rng, far=False):
    """all non-li pseudos with varied registers; labels before, between and after"""
    items = [{'k': 'label', 'name': 'A'}, {'k': 'pseudo', 'm': 'nop', 'ops': []}]
    labels = ['A', 'B', 'C']
    trailing = rng.random() < 0.5
    if trailing:
        labels.append('Z')         # defined after the last item: its offset is the size of the program
    body = []
    R = lambda: {'r': rng.choice(REGS) if rng.random() < 0.8 else rng.randrange(32)}  # noqa
    for m in sem.PSEUDOS:
        for _ in range(2):
            if m == 'li':
                continue
            t = {'t': rng.choice(labels if not far else ['A', 'B', 'C', 'FAR'])}
            if m in sem.UNARY:
                rd = R()
                rs = rd if rng.random() < 0.3 else R()
                body.append({'k': 'pseudo', 'm': m, 'ops': [rd, dict(rs)]})
            elif m in randprog.PBRANCH1:
                body.append({'k': 'pseudo', 'm': m, 'ops': [R() if rng.random() < 0.6 else {'r': rng.randrange(8, 16)}, {'t': rng.choice(labels)}]})
            elif m in randprog.PBRANCH2:
                a = R()
                b = a if rng.random() < 0.15 else R()
                body.append({'k': 'pseudo', 'm': m, 'ops': [a, dict(b), {'t': rng.choice(labels)}]})
            elif m in ('j', 'jal'):
                body.append({'k': 'pseudo', 'm': m, 'ops': [{'t': rng.choice(labels)}]})
            elif m in ('call', 'tail'):
                body.append({'k': 'pseudo', 'm': m, 'ops': [t]})
            elif m in ('jr', 'jalr'):
                body.append({'k': 'pseudo', 'm': m, 'ops': [{'r': rng.choice([1, 5, 6, 8, 31, 0, 2])}]})
            else:
                body.append({'k': 'pseudo', 'm': m, 'ops': []})
    for _ in range(4):
        # li whose operand is a label expression (documented: `li t0 %position(label, ADDR)`); forward and backward
        e = rng.choice([{'lab': rng.choice(labels)}, {'pos': [rng.choice(labels), {'i': rng.choice([0x08000000, 0x20000000, 0x7ffff800])}]},
                        {'sum': [{'lab': rng.choice(labels)}, rng.choice([4, 0x1000])]}])
        body.append({'k': 'pseudo', 'm': 'li', 'ops': [R(), e]})
    clash = []
    for k in range(2):
        # a constant and a label that share a name (separate namespaces: the constant is what an operand means)
        name = 'NC%d' % k
        v = rng.choice([0x20000100, 0x12345678, 5, -7, 0x7ff, 0x800, 0xfffff800])
        clash.append({'k': 'const', 'name': name, 'value': v, 'text': str(v)})
        body.append({'k': 'pseudo', 'm': 'li', 'ops': [R(), {'c': name}]})
        body.append({'k': 'label', 'name': name})
    if rng.random() < 0.5:
        for _ in range(rng.randint(1, 4)):
            body.append(data_items(rng))
    rng.shuffle(body)
    body = clash + [x for b in body for x in (b if isinstance(b, list) else [b])]
    half = len(body) // 2
    items += body[:half] + [{'k': 'label', 'name': 'B'}] + body[half:] + [{'k': 'label', 'name': 'C'}, {'k': 'pseudo', 'm': 'ret', 'ops': []}]
    if far:
        items += [{'k': 'gap', 'n': rng.choice([1 << 20, (1 << 20) + 2048, (1 << 20) + 4094, 3 << 20])}, {'k': 'label', 'name': 'FAR'},
                  {'k': 'pseudo', 'm': 'nop', 'ops': []}]
        # also far *backward*: a call/tail placed after the gap
        items += [{'k': 'pseudo', 'm': 'call', 'ops': [{'t': 'A'}]}, {'k': 'pseudo', 'm': 'tail', 'ops': [{'t': 'B'}]},
                  {'k': 'pseudo', 'm': 'call', 'ops': [{'t': 'FAR'}]}]
    if rng.random() < 0.3:
        # labels whose names are numbers (accepted), next to `li` of the same number as a literal: a literal is a literal
        for nm in rng.sample(['2', '8', '4096', '100', '0x10'], 2):
            k = rng.randrange(2, len(items))
            items.insert(k, {'k': 'label', 'name': nm})
            items.insert(k + 1, {'k': 'pseudo', 'm': 'li', 'ops': [R(), {'i': int(nm, 0)}]})
            items.insert(rng.randrange(2, len(items)), {'k': 'pseudo', 'm': 'li', 'ops': [R(), {'x': [nm, int(nm, 0)]}]})
    if trailing:
        items.append({'k': 'label', 'name': 'Z'})
    if rng.random() < 0.4:
        items = randprog.constify(rng, items, 0.2)
    return items


def named_location_program(rng, compress):
    """`T = <address>` / `call T`: a name in a target position is a location, also when it is a constant.  The address is placed so
    that the distance from the transfer has low 12 bits around 0 / 4 / 0x7fc (the auipc + jalr split and its +4 compensation)"""
    n = rng.randrange(0, 6)
    pos = n * (2 if compress else 4)                  # `nop` is 2 bytes under -c
    m = rng.choice(['call', 'tail', 'call', 'tail', 'j', 'jal'])
    if m in ('j', 'jal'):
        dist = rng.choice([0x1000, 0x1004, 0xff000, 0xffffe, 0x7fc, 0x800, 2 * rng.randrange(0, 0x7ffff)])
    else:
        dist = rng.choice([0x20001000, 0x20001004, 0x20001008, 0x20000ffc, 0x200007fc, 0x20000800, 0x20000804, 0x100000, 0x100004, 0x1ff004, 0x7ffff000,
                           0x20000000 + 2 * rng.randrange(0, 0x2000)])
    T = pos + dist
    items = [{'k': 'const', 'name': 'TLOC', 'value': T, 'text': rng.choice([str, hex])(T)}]
    items += [{'k': 'pseudo', 'm': 'nop', 'ops': []} for _ in range(n)]
    if rng.random() < 0.3:
        # the distance to an absolute address as a value: li of %offset(constant), small and large, next to the 12-bit edges
        T2 = pos + rng.choice([0, 4, 100, 2046, 2047, 2048, 2052, 4096, 0x5678, 0x7ff, 0x800, 0x12345678, 0x7ffff7fc, 0x1f000, 0x20000])
        if rng.random() < 0.4:
            # data and an `align` in front: the passes first see the align at its full size, later at its real padding, and the
            # distance is placed so that its low 12 bits are around 0 (or an RVC immediate edge) as seen from the *first* position
            k2 = rng.choice([1, 2, 3])
            a = rng.choice([4, 8, 16])
            items[1:1] = [{'k': 'seq', 'd': 'shorts', 'vals': [0x1234] * k2}, {'k': 'align', 'n': a}]
            first = 2 * k2 + a + n * 4
            T2 = first + rng.choice([0, 0x1000, 0x20000000]) + rng.choice([0, 0, 0, 2, 4, -2, 30, 32, 34, -32, -34, 2046, 2048])
        items[0] = {'k': 'const', 'name': 'TLOC', 'value': T2, 'text': rng.choice([str, hex])(T2)}
        items.append({'k': 'pseudo', 'm': 'li', 'ops': [{'r': rng.choice(REGS[1:])}, rng.choice([{'off': 'TLOC'}, {'off': 'TLOC'}, {'hi': {'off': 'TLOC'}}, {'lo': {'off': 'TLOC'}}])]})
        items.append({'k': 'pseudo', 'm': 'ret', 'ops': []})
        return items
    items.append({'k': 'pseudo', 'm': m, 'ops': [{'t': 'TLOC'}]})
    items.append({'k': 'pseudo', 'm': 'ret', 'ops': []})
    return items


def drift_program(rng, base):
    """li of a label expression whose value sits at the edge of the one-instruction range while the label it names still moves:
    between the li and the label are items that end up smaller than first assumed (aligns, short li, near call/tail, compressible)"""
    R = lambda: {'r': rng.choice(REGS[1:])}  # noqa
    shape = rng.randrange(4)
    if shape == 0:
        e = {'pos': ['T', {'i': base}]}
    elif shape == 1:
        e = {'sum': [{'lab': 'T'}, base]}
    elif shape == 2:
        e = {'sum': [{'diff': ['S', 'T']}, -base]}          # decreasing in T
    else:
        e = {'pos': ['T', {'x': ['(%d)' % base, base]}]}
    items = [{'k': 'pseudo', 'm': 'nop', 'ops': []} for _ in range(rng.randrange(3))]
    the_li = {'k': 'pseudo', 'm': 'li', 'ops': [R(), e]}
    back = rng.random() < 0.35        # the label lies *in front of* the li: it is "already laid out" when the li is expanded - and still moves
    items += [{'k': 'label', 'name': 'S'}] + ([] if back else [the_li])
    for _ in range(rng.randrange(1, 7)):
        c = rng.randrange(6)
        if c == 0:
            items.append({'k': 'align', 'n': rng.choice([4, 8, 16, 64, 256, 1024])})
        elif c == 1:
            items.append({'k': 'pseudo', 'm': 'li', 'ops': [R(), {'i': rng.randrange(-30, 31)}]})
        elif c == 2:
            items.append({'k': 'pseudo', 'm': rng.choice(['call', 'tail']), 'ops': [{'t': 'S'}]})
        elif c == 3:
            items.append({'k': 'inst', 'm': 'addi', 'ops': [{'r': 8}, {'r': 8}, {'i': 1}]})
        elif c == 4:
            items += [{'k': 'gap', 'n': rng.choice([1, 2, 3, 5])}, {'k': 'align', 'n': 2}] if rng.random() < 0.5 else data_items(rng)
        else:
            items.append({'k': 'pseudo', 'm': 'mv', 'ops': [R(), R()]})
    items += [{'k': 'align', 'n': 2}, {'k': 'label', 'name': 'T'}, {'k': 'pseudo', 'm': 'ret', 'ops': []}]
    if back:
        items += [{'k': 'inst', 'm': 'lui', 'ops': [{'r': 5}, {'i': 0x12345}]} for _ in range(rng.randrange(3))] + [the_li, {'k': 'pseudo', 'm': 'ret', 'ops': []}]
    return items


def drift_case(asm, acc, case, compress):
    """two builds: the first only measures where T ends up, the second places the li value next to -2048 / 2047"""
    seedtxt = 'c05-drift-%d-%d-%s' % (case['seed'], case['idx'], compress)
    probe = drift_program(random.Random(seedtxt), 0)
    ex0 = progcheck.examine(asm, probe, compress, judge=False)
    if not ex0.ok or ex0.layout_problem:
        return None, None
    t, s0 = ex0.labels_true['T'], ex0.labels_true['S']
    rng = random.Random(seedtxt + 'v')
    want = rng.choice([-2048, -2049, -2052, -2056, -2060, -2080, -2047, -2044, 2047, 2048, 2050, 2052, 2060, 2040, -3000, 100])
    shape = random.Random(seedtxt).randrange(4) if False else None
    items = drift_program(random.Random(seedtxt), 0)
    e = [it for it in items if it['k'] == 'pseudo' and it['m'] == 'li' and P.label_dependent(it['ops'][1])][0]['ops'][1]
    if 'pos' in e or ('sum' in e and 'lab' in e['sum'][0]):
        base = want - t
    else:
        base = -(want - (s0 - t))
    items = drift_program(random.Random(seedtxt), base)
    if case['idx'] % 6 == 5:
        # the moving label carries a name that Python would not look up (`__debug__`), or would read as an attribute / a look-alike of
        # another name: for the decision between the two forms of li it is a label like any other
        nm = ['__debug__', 'T.real', 'T\u00ba', '__debug__', 'S.imag'][case['idx'] // 6 % 5]
        items = P.rename_labels(items, {'T': nm})
        acc['ctr']['drift_programs_with_a_python_reading_label_name'] += 1
    return items, want


def judge(acc, ex, rcase, items):
    for idx, it, st, data, probs, info in ex.per_item:
        if it['k'] != 'pseudo':
            continue
        m = it['m']
        acc['n'] += 1
        acc['ntkeys'].add(core.ckey(ex.lines[idx], rcase['compress'], st))
        acc['ctr']['executed:' + m] += 1
        core.see(acc, 'pseudos', m)
        core.see(acc, 'expansions', '%s->%s%s' % (m, '+'.join(info.get('forms', ['?'])), '/c' if rcase['compress'] else ''))
        for tk in info.get('taken', ()):
            core.see(acc, 'branch_outcomes', '%s:%s' % (m, 'taken' if tk else 'not-taken'))
        for p in probs:
            core.add_viol(acc, 'pseudo-instruction `%s` at offset %d (compress=%s, emitted %s): %s' % (
                ex.lines[idx], st, rcase['compress'], data.hex(), p), rcase, {'line': idx + 1})


def run_case(asm, acc, case):
    rng = random.Random('c05-%s-%d-%d' % (case['kind'], case['seed'], case['idx']))
    lines = None
    if case['kind'] == 'li':
        items = li_program(rng, case.get('n', 200))
        lines = li_render(rng, items)
    else:
        if case['kind'] == 'far' and case['idx'] % 2 == 0:
            # several far call / tail expansions first, then shrinking pseudo-instructions that carry a label, then transfers to them
            from . import c03
            items = c03.far_family(rng)
        else:
            items = misc_program(rng, far=case['kind'] == 'far')
        if case['idx'] % 2:
            # documented spelling freedoms (numeric / xN / ABI register names, separators, comments): same structure
            from . import c13
            lines = [c13.s_item(rng, it)[0] for it in items]
    for compress in (False, True):
        rcase = dict(case, compress=compress)
        if case['kind'] == 'named':
            items = named_location_program(random.Random('c05-named-%d-%d-%s' % (case['seed'], case['idx'], compress)), compress)
            lines = None
        if case['kind'] == 'drift':
            items, want = drift_case(asm, acc, case, compress)
            lines = None
            if items is None:
                acc['ctr']['drift_probe_failed'] += 1
                continue
        preseed = extern = None
        if case['kind'] == 'named' and case['idx'] % 2:
            # the address comes in through the caller's label table instead (an external symbol: `labels={'main': 0x20000000}`)
            extern = {it['name']: it['value'] for it in items if it['k'] == 'const'}
            items = [it for it in items if it['k'] != 'const']
            if case['idx'] % 4 == 1:
                # the environment's symbol table may hold names that look like registers (`x5`, `t0`, `s0`): in a register
                # position they are still registers
                extern.update({'x5': 0x20000000, 'x8': 9, 't0': 12, 's0': 0x1234})
                items = items[:-1] + [{'k': 'pseudo', 'm': 'mv', 'ops': [{'r': 5}, {'r': 8}]}, {'k': 'pseudo', 'm': 'neg', 'ops': [{'r': 8}, {'r': 5}]}] + items[-1:]
            preseed = {'labels': dict(extern)}
            acc['ctr']['programs_with_an_external_symbol'] += 1
        elif case['kind'] == 'named' and case['idx'] % 4 == 2:
            # the caller's label table is left over from a build in which this name was a label somewhere else: the program defines
            # the name as a constant, and a constant is what an operand means
            preseed = {'labels': {it['name']: (it['value'] ^ 0x7f0) + 0x100 for it in items if it['k'] == 'const'}}
            acc['ctr']['programs_whose_constant_is_also_a_stale_table_entry'] += 1
        if preseed is None and items and case['idx'] % 3 == 1:
            # the caller's label table is left over from a build of a differently ordered source: own names, stale values, other order
            names = list(dict.fromkeys(it['name'] for it in items if it['k'] == 'label'))
            prng = random.Random('c05-pre-%s-%d' % (case['kind'], case['idx']))
            prng.shuffle(names)
            if len(names) > 1:
                preseed = {'labels': {n: 2 * prng.randrange(0, 5000) for n in names}}
                acc['ctr']['programs_with_a_leftover_label_table'] += 1
        if preseed is None and extern is None and items and case['idx'] % 9 == 5:
            # a caller that never passes tables, after an earlier build (by such a caller too) in which this program's label names were constants
            names = list(dict.fromkeys(it['name'] for it in items if it['k'] == 'label'))
            prng = random.Random('c05-earlier-%s-%d' % (case['kind'], case['idx']))
            if names:
                preseed = {'notables': True, 'earlier': ''.join('%s = %d\n' % (n, 4 * prng.randrange(1, 500)) for n in names) + 'nop\n'}
                acc['ctr']['programs_built_without_tables_after_an_earlier_build'] += 1
        ex = progcheck.examine(asm, items, compress, seed='%s-%d' % (case['kind'], case['idx']), nregs=case.get('nregs', 5), lines=lines, preseed=preseed, extern=extern)
        if extern and ex.ok and any(ex.labels_reported.get(k) != v for k, v in extern.items()):
            core.add_viol(acc, 'program %r (compress=%s): the caller\'s external symbol %r came back as %r' % (
                '; '.join(ex.lines)[:160], compress, extern, {k: ex.labels_reported.get(k) for k in extern}), rcase, {})
        if not ex.ok:
            acc['ctr']['refused'] += 1
            acc['ctr']['refused:' + ex.exc['msg'][:40]] += 1
            acc['n'] += 1
            if case['kind'] in ('named', 'drift'):
                # every target of these programs is inside the reach of its transfer and li takes every value: nothing to turn down
                core.add_viol(acc, 'program %r (compress=%s) is refused: %s' % ('; '.join(ex.lines)[:200], compress, ex.exc['msg'][:120]), rcase, {})
            continue
        if ex.layout_problem:
            core.add_viol(acc, 'layout: ' + ex.layout_problem, rcase, {})
            continue
        judge(acc, ex, rcase, items)
        if case['kind'] == 'drift':
            for idx, it, st, data, probs, info in ex.per_item:
                if it['k'] == 'pseudo' and it['m'] == 'li' and P.label_dependent(it['ops'][1]):
                    v = P.ev(it['ops'][1], ex.labels_true, {}, st)
                    acc['ctr']['drift_li_final_value_%s' % ('below_-2048' if v < -2048 else 'above_2047' if v > 2047 else 'in_12_bits')] += 1
                    core.see(acc, 'drift_li_values', max(-2100, min(2100, v)))
    if case['idx'] % 37 == 0:
        core.add_sample(acc, {'program_kind': case['kind'], 'first_lines': (lines or P.render(items or []))[:8]})


def run_shard(sh, deadline):
    asm = core.load_asm()
    acc = core.new_acc()
    for case in sh['cases']:
        run_case(asm, acc, case)
        if time.time() > deadline:
            acc['truncated'] += 1
            break
    return acc


def plan(tier, seed):
    cases = []
    nli, nmisc, nfar = (320, 400, 96) if tier == 'quick' else (20000, 20000, 2000)
    cases += [{'kind': 'li', 'seed': seed, 'idx': i} for i in range(nli)]
    cases += [{'kind': 'misc', 'seed': seed, 'idx': i} for i in range(nmisc)]
    cases += [{'kind': 'far', 'seed': seed, 'idx': i} for i in range(nfar)]
    cases += [{'kind': 'named', 'seed': seed, 'idx': i} for i in range(400 if tier == 'quick' else 20000)]
    cases += [{'kind': 'drift', 'seed': seed, 'idx': i} for i in range(600 if tier == 'quick' else 30000)]
    nsh = 64 if tier == 'quick' else 512
    # far programs (MiB gaps) are the slow ones: spread them
    cases.sort(key=lambda c: c['kind'] != 'far')
    shards = [{'cases': cases[i::nsh]} for i in range(nsh)]
    return {'shards': shards, 'budget_s': 300 if tier == 'quick' else 3000}


def gates(acc, tier):
    g = []
    ps = acc['seen'].get('pseudos', set())
    if len(ps) != 27:
        g.append('only %d/27 pseudo-instructions executed (missing %s)' % (len(ps), sorted(set(sem.PSEUDOS) - ps)))
    outs = acc['seen'].get('branch_outcomes', set())
    for m in sem.BRANCH_COND:
        for o in ('taken', 'not-taken'):
            if '%s:%s' % (m, o) not in outs:
                g.append('branch outcome never exercised: %s %s' % (m, o))
    for k in ('below_-2048', 'above_2047', 'in_12_bits'):
        if not acc['ctr'].get('drift_li_final_value_' + k) and not acc['nviol']:
            g.append('no li of a moving label expression ended ' + k)
    exps = acc['seen'].get('expansions', set())
    for need in ('li->addi', 'li->lui+addi', 'call->jal', 'call->auipc+jalr', 'tail->jal', 'tail->auipc+jalr'):
        if need not in exps and not acc['nviol']:
            g.append('expansion never observed: ' + need)
    return g[:8]


def replay(case):
    asm = core.load_asm()
    acc = core.new_acc()
    run_case(asm, acc, {k: v for k, v in case.items() if k != 'compress'})
    return acc
