"""C16 - assembly is a pure, deterministic function of its inputs.  DESIGN.md section 4 / C16.

History + model: every call of a random call history inside one interpreter is compared with the *solo* result of the
same (program, options) obtained in a fresh interpreter; the digest of the assembler's module-level tables is taken
before and after every call; fresh processes under different PYTHONHASHSEED values run the pool in different orders.
"""
import concurrent.futures as cf
import json
import os
import random
import shutil
import subprocess
import sys
import tempfile
import time

from .. import core, monitors, c16runner

ID = 'C16'
LEVEL = 'exploration'
RULE = ('pool of 91 programs built to interfere (same label / constant names with different values, programs that use a name only another '
        'program defines, failing programs of every error class, include trees with include_dirs, both modes, with and without caller '
        'dictionaries); solo reference = one fresh interpreter per pool entry; histories = seeded random sequences of 200 calls with immediate '
        'repeats, A-B-A patterns and failure-then-success, every call compared with its solo result (bytes, ordered label and constant tables, '
        'or exception class / message / file / line), module-table digest before and after every call, caller include_dirs lists compared; '
        'hash seeds: fresh processes with PYTHONHASHSEED in {0,1,2,3,random} each running the pool in another order.  One case = one call.  '
        'Non-trivial = a call that is preceded in its history by a call on a different program; distinct by (history, position).')
ASSUMPTIONS = ['every call gets fresh labels/constants dictionaries (passing the same dict twice is the documented way to pre-define symbols)']


def spawn(seed, order, hashseed):
    env = dict(os.environ, PYTHONHASHSEED=str(hashseed), BBV_NO_REEXEC='1', PYTHONDONTWRITEBYTECODE='1')
    env['PYTHONPATH'] = core.VERIF_DIR + os.pathsep + env.get('PYTHONPATH', '')
    r = subprocess.run([sys.executable, '-m', 'bbv.c16runner', str(seed), ','.join(map(str, order))], cwd=core.VERIF_DIR, env=env,
                       capture_output=True, text=True, timeout=600)
    if r.returncode != 0:
        raise RuntimeError('runner failed: ' + r.stderr[-400:])
    return json.loads(r.stdout)


def solo_results(seed, n):
    with cf.ThreadPoolExecutor(max_workers=core.NCPU) as ex:
        futs = [ex.submit(spawn, seed, [i], 0) for i in range(n)]
        return [f.result()['results'][0] for f in futs]


def solo_fresh(seed, pool):
    """for entries that run with a left-over label table: their reference is the same program with a fresh table"""
    import copy
    asm = core.load_asm()
    root = tempfile.mkdtemp(prefix='bbv-c16-')
    try:
        out = {}
        for i, e in enumerate(pool):
            if e.get('stale'):
                e2 = dict(e, stale=False)
                r = c16runner.run_entry(asm, e2, root)
                if r['ok']:
                    r['labels'] = sorted(r['labels'])
                out[i] = r
        return out
    finally:
        shutil.rmtree(root, ignore_errors=True)


def describe(r):
    if r['ok']:
        return '%d bytes %s.., %d labels, %d constants' % (len(r['out']) // 2, r['out'][:16], len(r['labels']), len(r['constants']))
    return '%s(%s) at %s:%s' % (r['type'], r['msg'][:60], r['file'], r['number'])


def norm(r):
    r = dict(r)
    r['labels'] = [list(x) for x in r.get('labels', [])]
    r['constants'] = [list(x) for x in r.get('constants', [])]
    return r


def history_shard(acc, sh, deadline):
    asm = core.load_asm()
    pool = c16runner.build_pool(sh['seed'])
    solo = sh['solo']
    root = tempfile.mkdtemp(prefix='bbv-c16-')
    try:
        for h in sh['histories']:
            rng = random.Random('c16-h-%d-%d' % (sh['seed'], h))
            seq = []
            while len(seq) < sh['length']:
                c = rng.random()
                i = rng.randrange(len(pool))
                if c < 0.15 and seq:
                    seq.append(seq[-1])                       # immediate repeat
                elif c < 0.3 and len(seq) >= 2:
                    seq.append(seq[-2])                       # A-B-A
                elif c < 0.45:
                    seq += [rng.randrange(3, 15), rng.randrange(0, 3), i]     # failing user, definer of its name, something else
                else:
                    seq.append(i)
            seq = seq[:sh['length']]
            d0, ntab = monitors.tables_digest(asm)
            for pos, i in enumerate(seq):
                acc['n'] += 1
                before, _ = monitors.tables_digest(asm)
                got = norm(c16runner.run_entry(asm, pool[i], root))
                after, _ = monitors.tables_digest(asm)
                want = norm(solo[i])
                if pool[i].get('stale') and str(i) in sh.get('fresh', {}):
                    want = norm(sh['fresh'][str(i)])      # a left-over table must not change what the program assembles to
                    acc['ctr']['calls_with_leftover_label_table'] += 1
                if pos and any(j != i for j in seq[:pos]):
                    acc['ntkeys'].add(core.ckey(sh['seed'], h, pos))
                case = {'kind': 'history', 'seed': sh['seed'], 'history': h, 'upto': pos, 'length': sh['length']}
                if got != want:
                    core.add_viol(acc, 'call %d of history %d (pool entry %d, after entries %s): %s; the same call alone in a fresh interpreter gives %s' % (
                        pos, h, i, seq[max(0, pos - 4):pos], describe(got), describe(want)), case, {'source': (pool[i]['src'] or '<include tree>')[:400]})
                    break
                if got.get('differs_from_hand_computed'):
                    core.add_viol(acc, 'call %d of history %d (pool entry %d): %s; the hand-assembled program is %s' % (
                        pos, h, i, describe(got), got['differs_from_hand_computed']), case, {'source': (pool[i]['src'] or '')[:400]})
                    break
                if got.get('externals_changed_by_the_failing_call'):
                    core.add_viol(acc, 'call %d of history %d (pool entry %d) failed (%s) and left the caller\'s external symbols changed: %r' % (
                        pos, h, i, got.get('msg', '')[:60], got['externals_changed_by_the_failing_call']), case, {'source': (pool[i]['src'] or '')[:400]})
                    break
                if got.get('again_with_the_same_tables') not in (None, got.get('out')):
                    core.add_viol(acc, 'call %d of history %d (pool entry %d): building the same source again with the tables the first build left gives %s.., the first build gave %s..' % (
                        pos, h, i, got['again_with_the_same_tables'][:24], got.get('out', '')[:24]), case, {'source': (pool[i]['src'] or '')[:400]})
                    break
                if before != after:
                    core.add_viol(acc, 'call %d of history %d (pool entry %d) changed the assembler\'s module-level tables' % (pos, h, i), case,
                                  {'source': (pool[i]['src'] or '<include tree>')[:400]})
                    break
                if got.get('include_dirs_mutated'):
                    core.add_viol(acc, 'call %d of history %d mutated the caller\'s include_dirs list' % (pos, h), case, {})
                    break
                acc['ctr']['calls_ok' if got['ok'] else 'calls_failing'] += 1
            acc['ctr']['histories'] += 1
            core.see(acc, 'module_tables_digested', ntab)
            if time.time() > deadline:
                acc['truncated'] += 1
                break
        core.add_sample(acc, {'history_prefix': seq[:16], 'entry_%d_source' % seq[0]: (pool[seq[0]]['src'] or '<include tree>')[:160], 'solo_result': describe(norm(solo[seq[0]]))})
    finally:
        shutil.rmtree(root, ignore_errors=True)


def cli_probe(hashseed):
    """the command line with several -i directories that all hold a file of the included name: whatever precedence rule the
    assembler applies, the same command must give the same bytes under every hash seed"""
    from .. import cli
    root = tempfile.mkdtemp(prefix='bbv-c16-cli-')
    try:
        args = []
        for k, name in enumerate(['inc_alpha', 'inc_beta', 'inc_gamma', 'inc_delta']):
            d = os.path.join(root, name)
            os.makedirs(d)
            open(os.path.join(d, 'board.asm'), 'w').write('BOARD_ID = %d\n' % (k + 1))
            args += ['-i', d]
        os.makedirs(os.path.join(root, 'src'))
        main = os.path.join(root, 'src', 'main.asm')
        open(main, 'w').write('include board.asm\ndb BOARD_ID\nL:\naddi x8, x8, BOARD_ID\n')
        outp = os.path.join(root, 'o.bin')
        r = cli.run_cli([main, '-c', '-o', outp, '-l', os.path.join(root, 'l.txt')] + args, root, extra_env={'PYTHONHASHSEED': str(hashseed)})
        if r.returncode != 0:
            return 'exit %d: %s' % (r.returncode, r.stderr[-120:])
        return open(outp, 'rb').read().hex() + ' ' + open(os.path.join(root, 'l.txt')).read().strip()
    finally:
        shutil.rmtree(root, ignore_errors=True)


def hashseed_shard(acc, sh, deadline):
    solo = sh['solo']
    for hs in sh['hashseeds']:
        for rep in range(3):
            got = cli_probe(hs)
            acc['n'] += 1
            acc['ctr']['cli_hashseed_runs'] += 1
            acc['ntkeys'].add(core.ckey('clihs', hs, rep))
            if got != sh['cli_ref']:
                core.add_viol(acc, 'command line with four -i directories under PYTHONHASHSEED=%s gives %r; under PYTHONHASHSEED=0 it gave %r' % (hs, got, sh['cli_ref']),
                              {'kind': 'hashseed', 'seed': sh['seed'], 'hashseed': hs}, {})
                break
    n = len(solo)
    for hs in sh['hashseeds']:
        order = list(range(n))
        random.Random('c16-order-%s' % hs).shuffle(order)
        res = spawn(sh['seed'], order, hs)
        acc['ctr']['hashseed_processes'] += 1
        core.see(acc, 'hashseeds', str(hs))
        for pos, (i, got) in enumerate(zip(order, res['results'])):
            acc['n'] += 1
            acc['ntkeys'].add(core.ckey('hs', hs, pos))
            if norm(got) != norm(solo[i]):
                core.add_viol(acc, 'fresh process with PYTHONHASHSEED=%s, pool entry %d (call %d): %s; with PYTHONHASHSEED=0 alone: %s' % (
                    hs, i, pos, describe(norm(got)), describe(norm(solo[i]))), {'kind': 'hashseed', 'seed': sh['seed'], 'hashseed': hs}, {})
                break
    core.add_sample(acc, {'hashseed_process': sh['hashseeds'][0], 'pool_entries_run': n})


def run_shard(sh, deadline):
    acc = core.new_acc()
    if sh['kind'] == 'history':
        history_shard(acc, sh, deadline)
    else:
        hashseed_shard(acc, sh, deadline)
    return acc


def plan(tier, seed):
    n = len(c16runner.build_pool(seed))
    solo = solo_results(seed, n)
    fresh = {str(k): v for k, v in solo_fresh(seed, c16runner.build_pool(seed)).items()}
    nh, length = (16, 200) if tier == 'quick' else (4000, 200)
    per = 1 if tier == 'quick' else 8
    shards = [{'kind': 'history', 'seed': seed, 'solo': solo, 'fresh': fresh, 'histories': list(range(lo, min(nh, lo + per))), 'length': length} for lo in range(0, nh, per)]
    rng = random.Random('c16-hs-%d' % seed)
    hs = [0, 1, 2, 3] + ([rng.randrange(4, 1 << 31) for _ in range(4)] if tier == 'quick' else list(range(4, 200)) + [rng.randrange(200, 1 << 31) for _ in range(56)])
    hs += ['random'] * (2 if tier == 'quick' else 6)
    cli_ref = cli_probe(0)
    shards += [{'kind': 'hashseed', 'seed': seed, 'solo': solo, 'hashseeds': [h], 'cli_ref': cli_ref} for h in hs]
    ok = sum(1 for r in solo if r['ok'])
    return {'shards': shards, 'budget_s': 300 if tier == 'quick' else 3000,
            'extra_cov': {'pool_entries': n, 'pool_entries_succeeding_solo': ok, 'pool_entries_failing_solo': n - ok}}


def gates(acc, tier):
    g = []
    if acc['ctr']['histories'] == 0:
        g.append('no history ran')
    if acc['ctr']['calls_failing'] == 0 or acc['ctr']['calls_ok'] == 0:
        g.append('histories did not contain both succeeding and failing calls')
    if acc['ctr']['hashseed_processes'] < 5:
        g.append('hash-seed sweep ran %d processes' % acc['ctr']['hashseed_processes'])
    if max(acc['seen'].get('module_tables_digested', {0})) < 5:
        g.append('module-table digest covers only %s tables' % sorted(acc['seen'].get('module_tables_digested', {0})))
    return g


def replay(case):
    acc = core.new_acc()
    n = len(c16runner.build_pool(case['seed']))
    solo = solo_results(case['seed'], n)
    if case['kind'] == 'history':
        fresh = {str(k): v for k, v in solo_fresh(case['seed'], c16runner.build_pool(case['seed'])).items()}
        history_shard(acc, {'seed': case['seed'], 'solo': solo, 'fresh': fresh, 'histories': [case['history']], 'length': case.get('length', 200)}, time.time() + 600)
    else:
        hashseed_shard(acc, {'seed': case['seed'], 'solo': solo, 'hashseeds': [case['hashseed']], 'cli_ref': cli_probe(0)}, time.time() + 600)
    return acc
