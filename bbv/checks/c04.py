"""C04 - enabling compression never changes what the program means.  DESIGN.md section 4 / C04.

Both builds of every program are observed line by line (blob stream).  Every 16-bit chunk of the compressed
build must be a legal RVC encoding, and every line must mean what the source line names (sem.py: structural
comparison after RVC expansion; execution on the reference ISS when the decoded forms differ) whenever the
uncompressed build does; data bytes are equal (label-valued data: equal to the value under that build's labels).
"""
import itertools
import random
import time

from .. import core, progcheck, sem
from ..gen import program as P, randprog

ID = 'C04'
LEVEL = 'exploration'
RULE = ('(a) every 32-bit instruction with literal operands on both sides of every RVC operand-set boundary (register classes '
        '{0,1,2,3,7,8,9,15,16,31} squared x 70 boundary immediates, all R-type register triples over 9 classes), embedded 300 per '
        'program and sampled alone; (b) random programs with label-dependent operands, constants / register aliases and label-moving '
        'items; (c) li / call / tail whose second instruction is itself compressible.  Each line of each program pair is one case. '
        'Non-trivial = a line whose compressed build is shorter than its uncompressed build (compression actually happened) or that '
        'carries a label-dependent operand; distinct by (line text, offset pair).')
ASSUMPTIONS = ['reference decoder / ISS per the RISC-V spec; "same meaning" for pc-relative operands = same target label (offsets evaluated '
               'over each build\'s own final label table)']

B = [-2048, -1025, -1024, -513, -512, -496, -257, -256, -255, -254, -130, -128, -65, -64, -48, -33, -32, -31, -17, -16, -15, -8, -5, -4,
     -3, -2, -1, 0, 1, 2, 3, 4, 5, 8, 12, 15, 16, 17, 30, 31, 32, 33, 48, 60, 63, 64, 65, 124, 127, 128, 129, 132, 252, 254, 255, 256,
     258, 260, 496, 508, 511, 512, 1020, 1023, 1024, 1028, 2044, 2046, 2047]
RC = [0, 1, 2, 3, 7, 8, 9, 15, 16, 31]
RC8 = [0, 1, 2, 3, 7, 8, 15, 16, 31]


def boundary_items():
    out = []
    I = lambda m, ops: out.append({'k': 'inst', 'm': m, 'ops': ops})  # noqa
    for m in ['addi', 'andi', 'lw', 'jalr', 'slti', 'ori', 'xori', 'lb', 'lh']:
        for rd, rs1 in itertools.product(RC, RC):
            for imm in B:
                if m == 'jalr' and imm % 2:
                    continue
                I(m, [{'r': rd}, {'r': rs1}, {'i': imm}])
    for m in ['sw', 'sb', 'sh']:
        for a, b in itertools.product(RC, RC):
            for imm in B:
                I(m, [{'r': a}, {'r': b}, {'i': imm}])
    for m in ['beq', 'bne', 'blt', 'bge']:
        for a, b in itertools.product([0, 1, 7, 8, 15, 16], [0, 1, 8, 15]):
            for imm in B + [2048, 4094, -4096]:
                if imm % 2 == 0:
                    I(m, [{'r': a}, {'r': b}, {'i': imm}])
    for rd in [0, 1, 2, 5]:
        for imm in B + [-2050, 2048, 2050, 4096, 1048574, -1048576]:
            if imm % 2 == 0:
                I('jal', [{'r': rd}, {'i': imm}])
    for rd in [0, 1, 2, 3, 8, 31]:
        for imm in list(range(-40, 40)) + [0xfffdf, 0xfffe0, 0xfffff, 0x7ffff, -0x80000, 0x80000]:
            I('lui', [{'r': rd}, {'i': imm}])
            I('auipc', [{'r': rd}, {'i': imm}])
    for m in ['add', 'sub', 'and', 'or', 'xor', 'sll', 'srl', 'sra', 'slt', 'sltu', 'mul', 'div', 'remu']:
        for t in itertools.product(RC8, RC8, RC8):
            I(m, [{'r': t[0]}, {'r': t[1]}, {'r': t[2]}])
    for m in ['slli', 'srli', 'srai']:
        for rd, rs1 in itertools.product(RC8, RC8):
            for sh in [0, 1, 2, 15, 16, 30, 31]:
                I(m, [{'r': rd}, {'r': rs1}, {'i': sh}])
    for m in ['ecall', 'ebreak', 'fence.i']:
        I(m, [])
    I('fence', [{'i': 3}, {'i': 5}])
    I('csrrw', [{'r': 8}, {'r': 8}, {'i': 1}])
    I('lr.w', [{'r': 8}, {'r': 8}])
    I('amoadd.w', [{'r': 8}, {'r': 8}, {'r': 8}])
    return out


def compare(acc, items, u, c, rcase, labelled):
    """per-line comparison of the two builds against the source meaning"""
    for (idx, it, su, du, pu, iu), (_i, _it, sc, dc, pc, ic) in zip(u.per_item, c.per_item):
        k = it['k']
        acc['n'] += 1
        nontriv = len(dc) < len(du) or (k in ('inst', 'pseudo', 'data', 'pack') and P.label_dependent(it.get('ops', it.get('val'))))
        if nontriv:
            acc['ntkeys'].add(core.ckey(u.lines[idx], su, sc))
        if k in ('inst', 'pseudo'):
            if ic.get('rvc'):
                core.see(acc, 'rvc_results', ic['rvc'])
            for f in ic.get('forms', []):
                if f.startswith('c.'):
                    core.see(acc, 'rvc_results', f)
            acc['ctr']['lines_compressed' if len(dc) < len(du) else 'lines_same_size'] += 1
            if pc and not pu:
                core.add_viol(acc, 'line `%s`: uncompressed build %s means what the line names, compressed build %s does not: %s' % (
                    u.lines[idx], du.hex(), dc.hex(), pc[0]), rcase, {'line': idx + 1, 'offsets': [su, sc]})
            elif pc and pu:
                acc['ctr']['both_builds_deviate'] += 1
        elif k in ('data', 'pack'):
            if pc and not pu:
                core.add_viol(acc, 'data line `%s` under compression: %s' % (u.lines[idx], pc[0]), rcase, {})
            if not P.label_dependent(it['val']) and dc != du:
                core.add_viol(acc, 'data line `%s` differs between the builds: %s vs %s' % (u.lines[idx], du.hex(), dc.hex()), rcase, {})
        elif k != 'align' and dc != du:
            core.add_viol(acc, 'line `%s` emits different bytes under compression: %s vs %s' % (u.lines[idx][:40], du[:16].hex(), dc[:16].hex()), rcase, {})


def run_pair(asm, acc, items, rcase, labelled=False):
    preseed = None
    if rcase.get('kind') == 'rand' and rcase.get('idx', 0) % 3 == 2:
        # the caller re-uses a label table from an earlier build: same names, stale values, another order
        rng = random.Random('c04-pre-%r' % (rcase.get('idx'),))
        names = [it['name'] for it in items if it['k'] == 'label']
        rng.shuffle(names)
        preseed = {'labels': {n: 2 * rng.randrange(0, 4000) for n in names}}
        acc['ctr']['pairs_with_reused_label_table'] += 1
    u = progcheck.examine(asm, items, False, seed=repr(rcase), nregs=3, preseed=preseed)
    if not u.ok:
        acc['ctr']['refused_uncompressed'] += 1
        return None
    c = progcheck.examine(asm, items, True, seed=repr(rcase), nregs=3, preseed=preseed)
    if not c.ok:
        acc['ctr']['refused_only_compressed'] += 1      # C12's finding
        return None
    if u.layout_problem or c.layout_problem:
        core.add_viol(acc, 'layout: %s' % (u.layout_problem or c.layout_problem), rcase, {})
        return None
    acc['ctr']['program_pairs'] += 1
    compare(acc, items, u, c, rcase, labelled)
    return u, c


CFGS = [
    dict(),
    dict(w_labimm=20, w_li=12, w_align=10, w_data=10, labels=(2, 6)),
    dict(w_xfer=26, w_li=12, w_inst=26, compress_bias=0.8, big_gap=0.15),
    dict(w_inst=50, compress_bias=0.95, w_cinst=10, w_pseudo=14),
]


def make_rand(seed, idx):
    rng = random.Random('c04-r-%d-%d' % (seed, idx))
    if idx % 5 in (1, 3):
        # label-dependent immediates whose value sits on an RVC operand-set edge while the compression pass looks at them
        # (pessimistic label value a multiple of 4 KiB, %lo = 0 / 31 / 32, L2 - L1 = 0 ...): see c12.edge_program
        from . import c12
        return c12.edge_program(rng)
    items = randprog.gen(rng, CFGS[idx % len(CFGS)])
    if idx % 3 == 0:
        items = randprog.constify(rng, items, 0.2)
    return items


def run_shard(sh, deadline):
    asm = core.load_asm()
    acc = core.new_acc()
    if sh['kind'] == 'boundary':
        allb = boundary_items()
        rng = random.Random('c04-b-%d' % sh['seed'])
        for lo in sh['batches']:
            batch = allb[lo:lo + 300]
            run_pair(asm, acc, batch, {'kind': 'boundary', 'lo': lo, 'n': 300})
            # a few of them alone (isolation)
            for k in rng.sample(range(len(batch)), min(sh['alone'], len(batch))):
                run_pair(asm, acc, [batch[k]], {'kind': 'boundary', 'lo': lo + k, 'n': 1})
            if time.time() > deadline:
                acc['truncated'] += 1
                break
        if sh['batches']:
            core.add_sample(acc, {'boundary_batch_first_lines': P.render(allb[sh['batches'][0]:sh['batches'][0] + 4])})
    else:
        for idx in range(sh['lo'], sh['hi']):
            items = make_rand(sh['seed'], idx)
            r = run_pair(asm, acc, items, {'kind': 'rand', 'seed': sh['seed'], 'idx': idx}, labelled=True)
            if r and idx % 151 == 0:
                core.add_sample(acc, {'random_program': r[0].lines[:10], 'len_u': len(r[0].out), 'len_c': len(r[1].out)})
            if time.time() > deadline:
                acc['truncated'] += 1
                break
    return acc


def plan(tier, seed):
    nb = len(boundary_items())
    starts = list(range(0, nb, 300))
    nsh = 48
    shards = [{'kind': 'boundary', 'batches': starts[i::nsh], 'alone': 6 if tier == 'quick' else 300, 'seed': seed} for i in range(nsh)]
    n = 3000 if tier == 'quick' else 100000
    st = 100 if tier == 'quick' else 1000
    shards += [{'kind': 'rand', 'seed': seed, 'lo': lo, 'hi': min(n, lo + st)} for lo in range(0, n, st)]
    return {'shards': shards, 'budget_s': 300 if tier == 'quick' else 3000, 'extra_cov': {'boundary_instructions': nb}}


def gates(acc, tier):
    g = []
    got = acc['seen'].get('rvc_results', set())
    from ..refmodel import operands
    miss = set(operands.RVC) - got
    if miss and not acc['nviol']:
        g.append('RVC mnemonics never observed as a compression result: %s' % sorted(miss))
    if acc['ctr']['program_pairs'] == 0:
        g.append('no program assembled in both modes')
    if acc['ctr']['refused_only_compressed'] > 0.2 * max(1, acc['ctr']['program_pairs']):
        g.append('%d programs refused only with compression' % acc['ctr']['refused_only_compressed'])
    return g


def replay(case):
    asm = core.load_asm()
    acc = core.new_acc()
    if case['kind'] == 'boundary':
        allb = boundary_items()
        run_pair(asm, acc, allb[case['lo']:case['lo'] + case['n']], case)
    else:
        run_pair(asm, acc, make_rand(case['seed'], case['idx']), case, labelled=True)
    return acc
