"""C08 - label arithmetic uses final addresses.  DESIGN.md section 4 / C08.

Every instruction immediate / li value / data word that refers to a label is decoded (or executed) from the
output and compared with the source expression evaluated over the *final* label offsets, which are taken from
the blob stream (where the bytes ended up), and over the final offset of the item containing it.
"""
import json
import random
import time

from .. import core, monitors, progcheck
from ..gen import program as P, randprog
from . import c12

ID = 'C08'
LEVEL = 'exploration'
RULE = ('programs: referring item kind {I/S/U-type instruction, li, dw/dd/pack} x expression form {bare label, %offset(L), '
        '%position(L, base), %hi/%lo of those, L2 - L1} x label before/after the reference x label-moving items (compressible code, '
        'shrinking li, near call/tail, align 2^k) before and between x compress off/on.  One case = one label-dependent item of an '
        'assembled build.  Non-trivial = the final offset of a label the item refers to differs from its offset under pessimistic '
        '(first-pass) sizing, i.e. the label really moved after early decisions; distinct by (line text, item offset, label offsets).')
ASSUMPTIONS = ['%hi/%lo reference semantics per the RISC-V psABI (C07 checks the split itself)', 'final offsets from the blob stream']


def make_use(rng, labs, pess, here_pess):
    """one label-dependent item; 12-bit forms only where the pessimistic value fits (the final value is closer to zero)"""
    L = rng.choice(labs)
    rd = {'r': rng.choice([5, 8, 9, 10, 15, 1])}
    base = rng.choice([0, 0x08000000, 0x20000000, 0x1000, 0x7ffff000, 0x800, 0x7fc])
    forms = []
    forms.append({'lab': L})
    forms.append({'pos': [L, {'i': base}]})
    xb = rng.choice([('1 << 4', 16), ('0x1000 | 4', 0x1004), ('0xff & 0x3c', 0x3c), ('8 ^ 1', 9), ('256 >> 2', 64), ('2 * 8 + 1', 17), ('0x08000000 | 0x100', 0x08000100),
                     ('1 << 28', 1 << 28), ('~0xff & 0xfff', 0xf00), ('(3 | 4) << 8', 0x700)])
    forms.append({'pos': [L, {'x': list(xb)}]})
    a, b = rng.choice(labs), rng.choice(labs)
    if pess[a] < pess[b]:
        a, b = b, a
    forms.append({'diff': [a, b]})
    forms.append({'off': L})
    # a base that itself names labels (`%position(func, RAM_BASE - ramcode)`: code that runs from another address than it is stored at)
    forms.append({'pos': [L, rng.choice([{'diff': [a, b]}, {'sum': [{'diff': [a, b]}, base]}, {'lab': a}, {'sum': [{'lab': b}, base]}])]})
    e = rng.choice(forms)
    k = rng.randrange(9)
    if k == 0:
        return {'k': 'pseudo', 'm': 'li', 'ops': [rd, e]}
    if k == 1:
        return {'k': 'inst', 'm': 'lui', 'ops': [rd, {'hi': e}]}
    if k == 2:
        return {'k': 'inst', 'm': rng.choice(['addi', 'lw', 'ori', 'jalr' if 'off' not in e else 'addi']), 'ops': [rd, {'r': rng.choice([5, 8, 2])}, {'lo': e}]}
    if k == 3:
        return {'k': 'inst', 'm': rng.choice(['sw', 'sb']), 'ops': [{'r': rng.choice([8, 2, 5])}, rd, {'lo': e}]}
    if k == 4:
        if ('off' in e or 'diff' in e or 'lab' in e) and rng.random() < 0.3:
            # a distance / offset in a byte or a halfword: it fits or it does not, depending on where the labels end up - what is emitted
            # must be the value (a value that does not fit is refused, C10; then nothing is emitted and there is nothing to judge)
            return {'k': 'data', 'd': rng.choice(['db', 'dh', 'dh']), 'val': e}
        if 'off' in e or 'diff' in e:
            return {'k': 'data', 'd': 'dw', 'val': {'pos': [L, {'i': base}]}}
        return {'k': 'data', 'd': rng.choice(['dw', 'dd']), 'val': e}
    if k == 5:
        if 'off' in e or 'diff' in e:
            e = {'lab': L}
        return {'k': 'pack', 'fmt': rng.choice(['<I', '>I', '<Q', '>Q', '<q']), 'val': e}
    if k == 6:
        return {'k': 'inst', 'm': 'auipc', 'ops': [rd, {'hi': {'off': L}}]}
    if k == 7:
        # plain 12-bit immediates: only if the pessimistic magnitude fits
        if 'diff' in e and abs(pess[e['diff'][0]] - pess[e['diff'][1]]) < 2040:
            return {'k': 'inst', 'm': rng.choice(['addi', 'lw', 'slti']), 'ops': [rd, rd, e]}
        if 'lab' in e and pess[L] < 2040:
            return {'k': 'inst', 'm': rng.choice(['addi', 'lw']), 'ops': [rd, {'r': 0}, e]}
        if 'off' in e and abs(pess[L] - here_pess) < 2000:
            return {'k': 'inst', 'm': 'addi', 'ops': [rd, rd, e]}
        return {'k': 'pseudo', 'm': 'li', 'ops': [rd, e]}
    return {'k': 'pseudo', 'm': 'li', 'ops': [rd, {'sum': [{'lab': L}, rng.choice([0, 4, 0x100, 0x10000000])]}]}


def build(rng):
    nl = rng.randint(1, 4)
    labs = ['L%d' % i for i in range(nl)]
    skeleton = []
    slots = sorted(rng.randrange(0, 12) for _ in labs)
    li = 0
    nseg = 12
    for s in range(nseg + 1):
        while li < nl and slots[li] == s:
            skeleton.append({'k': 'label', 'name': labs[li]})
            li += 1
        if s == nseg:
            break
        c = rng.random()
        if c < 0.5:
            skeleton += c12.movers(rng, rng.randint(1, 3))
        elif c < 0.75:
            skeleton.append({'k': 'USE'})
        elif c < 0.85:
            skeleton.append({'k': 'gap', 'n': rng.choice([2, 4, 30, 100, 1000, 2040, 4000, 70000])})
        else:
            skeleton.append({'k': 'USE'})
            skeleton.append({'k': 'USE'})
    if not any(it['k'] == 'USE' for it in skeleton):
        skeleton.append({'k': 'USE'})
    farabs = rng.random() < 0.25
    if farabs:
        # far call / tail (auipc + jalr, to an absolute address) in front of the labels and their uses
        for _ in range(rng.randint(1, 3)):
            skeleton.insert(rng.randrange(0, max(1, len(skeleton) // 2)), {'k': 'pseudo', 'm': rng.choice(['tail', 'call']), 'ops': [{'t': 'FARABS'}]})
    skeleton = ([{'k': 'const', 'name': 'FARABS', 'value': 0x20000000, 'text': '0x20000000'}] if farabs else []) + [{'k': 'label', 'name': 'S'}] + skeleton
    # pessimistic offsets
    pos = 0
    pess = {}
    offs = []
    for it in skeleton:
        offs.append(pos)
        if it['k'] == 'label':
            pess[it['name']] = pos
        elif it['k'] == 'USE':
            pos += 8
        else:
            pos += randprog.pess_size(it)
    items = []
    for it, o in zip(skeleton, offs):
        items.append(make_use(rng, labs, pess, o) if it['k'] == 'USE' else it)
    if rng.random() < 0.2:
        # a symbol of the environment (in the caller's label table, not defined here) referenced behind aligns and shrinking items
        items += [{'k': 'align', 'n': rng.choice([4, 8, 64])}, {'k': 'data', 'd': 'dw', 'val': {'labconst': 'EXTSYM'}}, {'k': 'pseudo', 'm': 'li', 'ops': [{'r': 6}, {'labconst': 'EXTSYM'}]},
                  {'k': 'inst', 'm': 'lui', 'ops': [{'r': 7}, {'hi': {'labconst': 'EXTSYM'}}]}, {'k': 'inst', 'm': 'addi', 'ops': [{'r': 7}, {'r': 7}, {'lo': {'labconst': 'EXTSYM'}}]}]
    if rng.random() < 0.08:
        # a constant defined from labels (`LEN = L1 - S`): refused by the current assembler; a build that accepts it owes the
        # final value like any other label arithmetic
        a, b = rng.choice(labs), 'S'
        items = [{'k': 'const', 'name': 'KLEN', 'labexpr': {'diff': [a, b]}, 'value': None, 'text': ''}] + items
        items += [{'k': 'data', 'd': 'dw', 'val': {'labconst': 'KLEN'}}, {'k': 'pseudo', 'm': 'li', 'ops': [{'r': 5}, {'labconst': 'KLEN'}]}]
    return items, pess


def refs(o):
    """labels an operand refers to"""
    out = []
    if isinstance(o, dict):
        for k, v in o.items():
            if k in ('lab', 'off', 't'):
                out.append(v)
            elif k == 'pos':
                out.append(v[0])
                out += refs(v[1])
            elif k == 'diff':
                out += v
            elif k == 'sum':
                out += refs(v[0])
            else:
                out += refs(v)
    elif isinstance(o, list):
        for v in o:
            out += refs(v)
    return out


# F44 (DESIGN.md section 7, repaired by 6e18198): a label is "a single token that ends with a colon", and inside an expression a bare name
# used to be handed to Python's eval() as a Python identifier.  (name used, other label defined, what Python would make of the name used)
PYNAMES = [('A.real', 'A', 'value of A'), ('A.numerator', 'A', 'value of A'), ('A.imag', 'A', 0), ('A.denominator', 'A', 1),
           ('tab.real', 'tab', 'value of tab'), ('n\u00ba', 'no', 'value of no'), ('\uff21', 'A', 'value of A'), ('\ufb01x', 'fix', 'value of fix'),
           ('K\u2160', 'KI', 'value of KI'), ('main.loop', 'main', 'refused'), ('\u00b5s', '\u03bcs', 'value of \u03bcs'), ('a.b.c', 'a.b', 'refused'),
           ('x.bit_length', 'x', 'refused'), ('\u212bngstrom', '\u00c5ngstrom', 'value of \u00c5ngstrom'), ('A.real', 'A.imag', 'refused'),
           ('L0.conjugate', 'L0', 'refused'), ('s\u0308', 's', 'refused')]


def run_pyname(asm, acc, case):
    used, other, reading = PYNAMES[case['pyname'] % len(PYNAMES)]
    d = ['dw %s', 'dd %s', 'pack <I, %s', 'dw %s + 0', 'pack >I, 0 + %s'][case['pyname'] // len(PYNAMES) % 5]
    lines = ['nop', other + ':', 'nop', 'nop', used + ':', 'nop', d % used, 'j ' + used]
    py = reading if isinstance(reading, int) else None
    for compress in (False, True):
        o = monitors.observe(asm, '\n'.join(lines) + '\n', compress, tap=False)
        acc['n'] += 1
        acc['ntkeys'].add(core.ckey('pyname', used, d, compress))
        if not o.ok:
            acc['ctr']['pyname_refused'] += 1         # a refusal encodes nothing: C08 has nothing to say
            core.see(acc, 'pynames_refused', used)
            continue
        at = len(o.out) - (4 if compress is False else 2) - (8 if d.startswith('dd') else 4)
        sz = 8 if d.startswith('dd') else 4
        got = int.from_bytes(o.out[at:at + sz], 'big' if '>' in d else 'little')
        lab = (o.labels or {}).get(used)
        if got == lab:
            acc['ctr']['pyname_resolved_to_the_label'] += 1
            core.see(acc, 'pynames_read_as_the_label', used)
            continue
        core.add_viol(acc, '`%s` with labels %s = %r and %s = %r encodes %d: the bare name is not read as the label of that name%s' % (
            d % used, used, lab, other, (o.labels or {}).get(other), got,
            ' (Python reads it as: %s)' % reading if got == (o.labels or {}).get(other) or got == py else ''),
            dict(case, compress=compress), {'lines': lines})


def run_case(asm, acc, case):
    if 'pyname' in case:
        return run_pyname(asm, acc, case)
    rng = random.Random('c08-%d-%d' % (case['seed'], case['idx']))
    if case['idx'] % 5 == 1:
        # a label-dependent immediate that sits on an RVC operand-set edge while the compression pass looks at it
        items = c12.edge_program(rng)
        pess, pos = {}, 0
        for it in items:
            if it['k'] == 'label':
                pess[it['name']] = pos
            else:
                pos += randprog.pess_size(it)
    else:
        items, pess = build(rng)
    if case['idx'] % 4 == 0:
        items = randprog.constify(rng, items, 0.15)
    preseed = None
    lines = None
    eol = '\n'
    if case['idx'] % 3 == 2:
        names = [it['name'] for it in items if it['k'] == 'label']
        rng.shuffle(names)
        preseed = {'labels': {n: 2 * rng.randrange(0, 4000) for n in names}}     # label table re-used from an earlier build
        acc['ctr']['builds_with_reused_label_table'] += 2
    elif case['idx'] % 9 == 4:
        # a caller that never passes tables: an earlier build defined *constants* named like this program's labels
        names = [it['name'] for it in items if it['k'] == 'label']
        preseed = {'notables': True, 'earlier': ''.join('%s = %d\n' % (n, 4 * rng.randrange(1, 500)) for n in names) + 'nop\n'}
        acc['ctr']['builds_without_tables_after_an_earlier_build'] += 2
    elif case['idx'] % 3 == 1:
        from ..gen import variants
        lines = variants.vary(rng, items, P.render(items))
        eol = rng.choice(['\n', '\r\n'])
    extern = None
    if any('EXTSYM' in json.dumps(it) for it in items):
        extern = {'EXTSYM': 0x20000000 + 4 * rng.randrange(0, 1000)}
        if preseed is None or 'labels' in preseed and not preseed.get('notables'):
            preseed = {'labels': dict((preseed or {}).get('labels', {}), **extern)}
        else:
            items = [it for it in items if 'EXTSYM' not in json.dumps(it)]      # a caller without tables has no externals
            extern = None
    for compress in (False, True):
        rcase = dict(case, compress=compress)
        ex = progcheck.examine(asm, items, compress, seed=case['idx'], nregs=3, preseed=preseed, lines=lines, eol=eol, extern=extern)
        if extern and ex.ok and ex.labels_reported is not None and ex.labels_reported.get('EXTSYM') != extern['EXTSYM']:
            core.add_viol(acc, 'the caller\'s external symbol EXTSYM = %#x came back as %r (compress=%s)' % (extern['EXTSYM'], ex.labels_reported.get('EXTSYM'), compress), rcase, {})
        acc['ctr']['builds'] += 1
        if not ex.ok:
            acc['ctr']['refused'] += 1
            acc['ctr']['refused:' + ex.exc['msg'][:44]] += 1
            continue
        if ex.layout_problem:
            core.add_viol(acc, 'layout: ' + ex.layout_problem, rcase, {})
            continue
        moved_any = False
        for idx, it, st, data, probs, info in ex.per_item:
            ops = it.get('ops') or ([it['val']] if 'val' in it else [])
            if it['k'] not in ('inst', 'pseudo', 'data', 'pack') or not P.label_dependent(ops):
                continue
            if progcheck.is_transfer(it):
                continue      # control transfers are C03's
            acc['n'] += 1
            rl = [l for l in refs(ops) if l in ex.labels_true]      # (a name may be a constant: `%offset(TABS)`)
            moved = any(ex.labels_true[l] != pess.get(l, ex.labels_true[l]) for l in rl)
            moved_any |= moved
            if moved:
                acc['ntkeys'].add(core.ckey(ex.lines[idx], st, tuple(ex.labels_true[l] for l in rl), compress))
            acc['ctr']['label_items_judged'] += 1
            form = '/'.join(sorted(set(k for o in ops for k in flat_keys(o)) & {'lab', 'off', 'pos', 'hi', 'lo', 'diff', 'sum'}))
            core.see(acc, 'forms', '%s:%s' % (it.get('m') or it.get('d') or 'pack', form))
            for p in probs:
                core.add_viol(acc, '`%s` at offset %d (compress=%s, labels %s): %s' % (
                    ex.lines[idx], st, compress, {l: ex.labels_true[l] for l in rl}, p), rcase, {'bytes': data.hex(), 'line': idx + 1},
                    key=classify_item(it, info))
        acc['ctr']['programs_with_moved_label' if moved_any else 'programs_without_moved_label'] += 1
    if case['idx'] % 97 == 0:
        core.add_sample(acc, {'program': P.render(items)[:14]})


def flat_keys(o):
    out = []
    if isinstance(o, dict):
        for k, v in o.items():
            out.append(k)
            out += flat_keys(v)
    elif isinstance(o, list):
        for v in o:
            out += flat_keys(v)
    return out


def has_key(o, key):
    return key in flat_keys(o)


def classify_item(it, info):
    """mechanism classifiers for KNOWN_FINDINGS.txt (never case hashes)"""
    if it['k'] == 'pseudo' and it['m'] == 'li' and has_key(it['ops'][1], 'off') and info.get('n_insns') == 2:
        # `li rd, <expr containing %offset(L)>`: when li needs two instructions the addi evaluates %offset at its own
        # position (4 or 2 bytes after the item), so hi and lo are taken from different values
        return 'li-with-offset-modifier'
    return None


def run_shard(sh, deadline):
    asm = core.load_asm()
    acc = core.new_acc()
    for k in range(sh.get('pynames', 0)):
        run_case(asm, acc, {'pyname': k})
    for idx in range(sh['lo'], sh['hi']):
        run_case(asm, acc, {'seed': sh['seed'], 'idx': idx})
        if time.time() > deadline:
            acc['truncated'] += 1
            break
    return acc


def plan(tier, seed):
    n = 5000 if tier == 'quick' else 200000
    st = 100 if tier == 'quick' else 1000
    shards = [{'seed': seed, 'lo': lo, 'hi': min(n, lo + st)} for lo in range(0, n, st)]
    shards[0]['pynames'] = len(PYNAMES) * 5
    return {'shards': shards, 'budget_s': 300 if tier == 'quick' else 3000}


def gates(acc, tier):
    g = []
    m, nm = acc['ctr']['programs_with_moved_label'], acc['ctr']['programs_without_moved_label']
    if m < 0.5 * max(1, m + nm):
        g.append('labels moved after the first pass in only %d of %d builds' % (m, m + nm))
    if acc['ctr']['refused'] > 0.3 * max(1, acc['ctr']['builds']):
        g.append('%d of %d builds refused' % (acc['ctr']['refused'], acc['ctr']['builds']))
    if len(acc['seen'].get('forms', ())) < 20:
        g.append('only %d (item kind, expression form) combinations seen' % len(acc['seen'].get('forms', ())))
    return g


def replay(case):
    asm = core.load_asm()
    acc = core.new_acc()
    run_case(asm, acc, {'pyname': case['pyname']} if 'pyname' in case else {'seed': case['seed'], 'idx': case['idx']})
    return acc
