"""C02 - RV32C encodings exact, and onto the legal halfwords.  DESIGN.md section 4 / C02.

Forward: every accepted c.* operand tuple must decode (independent RVC decoder) as a *legal* encoding of
exactly the mnemonic / registers / immediate named.  Reverse: all 65,536 halfwords are classified and
every legal non-hint non-reserved integer one must be produced by assembling its canonical text.
Both directions are complete enumerations in both tiers.
"""
import itertools
import random
import time

from .. import core, monitors
from ..refmodel import rv, operands

ID = 'C02'
LEVEL = 'exploration'
RULE = ('forward: 27 c.* mnemonics x registers -1..32 (numbers and names) x immediates from well below to well above '
        'the legal set at every residue, enumerated completely at the encoder boundary and (sampled in quick, complete in '
        'thorough) through one-line source programs; reverse: all 65,536 halfwords classified by the reference decoder, '
        'every legal one rendered as canonical text and assembled.  Non-trivial = the encoder returned a halfword for the '
        'tuple (forward) / the halfword is a legal RV32C integer encoding (reverse); distinct by construction.')
ASSUMPTIONS = ['RVC reference decoder validated against llvm-mc-14 (tools/validate_refmodel.py): legal/hint/reserved classes '
               'follow the spec text, not LLVM leniencies']

RVC = operands.RVC
IMMR = {
    'c.addi4spn': range(-8, 1040), 'c.lw': range(-8, 140), 'c.sw': range(-8, 140), 'c.addi': range(-40, 40),
    'c.li': range(-40, 40), 'c.jal': range(-2060, 2060), 'c.j': range(-2060, 2060), 'c.addi16sp': range(-530, 530),
    'c.lui': list(range(-40, 40)) + list(range(0xfffd0, 0x100010)), 'c.srli': range(-70, 70), 'c.srai': range(-70, 70),
    'c.andi': range(-70, 70), 'c.beqz': range(-270, 270), 'c.bnez': range(-270, 270), 'c.slli': range(-70, 70),
    'c.lwsp': range(-8, 270), 'c.swsp': range(-8, 270),
}
EXTRA_IMM = [-(1 << 31), -(1 << 16), -4096, 4096, 1 << 16, (1 << 31) - 1, 1 << 32, (1 << 32) + 4]
REGS_INT = list(range(-1, 33))


def reg_names(rot):
    out = []
    for n in range(32):
        k = (n + rot) % 4
        out.append('x%d' % n if k == 0 else (operands.ABI[n] if k == 1 else (str(n) if k == 2 else hex(n))))
    return out + ['fp', 'x32', 'x-1', 's12', 'pc', '']


def doms_for(m, regs):
    out = []
    for kind in operands.FORMATS[m]:
        if isinstance(kind, tuple) or kind in ('cupper',):
            out.append(list(IMMR[m]) + EXTRA_IMM)
        elif kind == 'nzshamt':
            out.append(list(IMMR[m]) + EXTRA_IMM)
        else:
            out.append(regs)
    return out


def check_forward(asm, acc, m, tup, count_canon=False):
    """-> True if the encoder accepted"""
    f = asm.INSTRUCTIONS[m]
    acc['n'] += 1
    try:
        h = f(*tup)
    except ValueError:
        st, _ = operands.expected(m, tup)
        if st == operands.ACCEPT:
            acc['ctr']['legal_refused:' + m] += 1
            core.add_viol(acc, 'legal RVC operand tuple %s%r is refused, so its legal halfword is not reachable' % (m, tuple(tup)),
                          {'kind': 'fwd', 'm': m, 'args': list(tup)}, {}, key=None)
        return False
    acc['nt'] += 1
    acc['ctr']['accepted:' + m] += 1
    st, exp = operands.expected(m, tup)
    dec = monitors.decode_any(m, h)
    if st == operands.ACCEPT:
        acc['ctr']['accepted_canonical'] += 1 if count_canon else 0
    if st == operands.REJECT or dec != exp:
        core.add_viol(acc, 'accepted %s%r -> %s decodes to %r; the operands named %s' % (
            m, tuple(tup), ('%#06x' % h) if isinstance(h, int) else repr(h), dec,
            exp if st != operands.REJECT else 'something not representable in this encoding'),
            {'kind': 'fwd', 'm': m, 'args': list(tup)}, {'halfword': h, 'decoded': dec, 'expected': exp, 'status': st})
    return True


def canon_text(i):
    n = i['name']
    if n in ('c.nop', 'c.ebreak'):
        return n
    if n == 'c.addi4spn':
        return '%s x%d, %d' % (n, i['rd'], i['imm'])
    if n == 'c.lw':
        return '%s x%d, x%d, %d' % (n, i['rd'], i['rs1'], i['imm'])
    if n == 'c.sw':
        return '%s x%d, x%d, %d' % (n, i['rs1'], i['rs2'], i['imm'])
    if n in ('c.addi', 'c.li', 'c.andi', 'c.lui', 'c.lwsp'):
        return '%s x%d, %d' % (n, i['rd'], i['imm'])
    if n in ('c.jal', 'c.j', 'c.addi16sp'):
        return '%s %d' % (n, i['imm'])
    if n in ('c.srli', 'c.srai', 'c.slli'):
        return '%s x%d, %d' % (n, i['rd'], i['shamt'])
    if n in ('c.sub', 'c.xor', 'c.or', 'c.and', 'c.mv', 'c.add'):
        return '%s x%d, x%d' % (n, i['rd'], i['rs2'])
    if n in ('c.beqz', 'c.bnez'):
        return '%s x%d, %d' % (n, i['rs1'], i['imm'])
    if n == 'c.swsp':
        return '%s x%d, %d' % (n, i['rs2'], i['imm'])
    if n in ('c.jr', 'c.jalr'):
        return '%s x%d' % (n, i['rs1'])
    raise KeyError(n)


def canon_args(i):
    n = i['name']
    return [i[f] for f in operands.FIELDS[n]]


def check_reverse(asm, acc, h):
    acc['n'] += 1
    k, i = rv.decode16(h)
    acc['ctr']['class:' + k] += 1
    if k != 'legal':
        return
    acc['nt'] += 1
    core.see(acc, 'mnemonics_reverse', i['name'])
    text = canon_text(i)
    o = monitors.observe(asm, text, tap=False)
    if not o.ok:
        core.add_viol(acc, 'legal halfword %#06x: its canonical text %r is refused (%s: %s)' % (h, text, o.exc['type'], o.exc['msg']),
                      {'kind': 'rev', 'h': h}, {'text': text, 'exc': o.exc})
    elif o.out != h.to_bytes(2, 'little'):
        core.add_viol(acc, 'legal halfword %#06x: canonical text %r assembles to %s' % (h, text, o.out.hex()),
                      {'kind': 'rev', 'h': h}, {'text': text, 'out': o.out.hex()})
    # and through the encoder boundary
    try:
        h2 = asm.INSTRUCTIONS[i['name']](*canon_args(i))
    except ValueError as e:
        h2 = 'ValueError: %s' % e
    if h2 != h:
        core.add_viol(acc, 'legal halfword %#06x: encoder %s%r gives %r' % (h, i['name'], tuple(canon_args(i)), h2),
                      {'kind': 'rev', 'h': h}, {})
    if h % 4099 == 0:
        core.add_sample(acc, {'halfword': '%#06x' % h, 'canonical_text': text, 'assembled': o.out.hex() if o.ok else None})


def text_forward(asm, acc, m, tup, alias=False, expr=False):
    """the same tuple through a one-line program; registers/ints rendered as given (alias: register operands named through
    register-alias constants, `RA8 = x8`, which sends the item through the alias-resolution pass)"""
    ops = [str(a) for a in tup]
    pre = ''
    skip = 0
    if alias:
        fmt = operands.FORMATS[m]
        regpos = [k for k, (kind, a) in enumerate(zip(fmt, tup)) if not isinstance(kind, tuple) and kind not in ('cupper', 'nzshamt') and isinstance(a, int) and 0 <= a <= 31]
        # alias only some of the register operands (which ones varies), the others stay plain registers
        chosen = [k for j, k in enumerate(regpos) if (sum(x for x in tup if isinstance(x, int)) >> j) & 1 or len(regpos) == 1]
        for k in chosen:
            a = tup[k]
            pre += 'RA%d_%d = %s\n' % (a, k, ['x%d' % a, operands.ABI[a], str(a)][(a + k) % 3])
            ops[k] = 'RA%d_%d' % (a, k)
        if len(regpos) >= 2:
            # ... behind an instruction of the same kind whose register operands are *all* aliases, of other registers
            decoy = list(tup)
            dops = [str(a) for a in tup]
            for k in regpos:
                a = tup[k]
                d = 8 + (a - 8 + 3) % 8 if 8 <= a <= 15 else (a + 7) % 29 + 3
                decoy[k] = d
                pre += 'RD%d_%d = x%d\n' % (d, k, d)
                dops[k] = 'RD%d_%d' % (d, k)
            if operands.expected(m, tuple(decoy))[0] == operands.ACCEPT and operands.expected(m, tup)[0] == operands.ACCEPT:
                pre += m + ' ' + ', '.join(dops) + '\n'
                skip = 2
                acc['ctr']['text_behind_fully_aliased_instruction'] += 1
    if expr and m not in ('c.j', 'c.jal', 'c.beqz', 'c.bnez'):
        # (a lone token that is not a number in a pc-relative position names a location, so those keep literals)
        # integer operands written as expressions with the same value (`17 // 4`, `36 - 32`, `~-5`)
        from ..gen import exprs
        rng = random.Random('c02-expr-%s-%r' % (m, tup))
        for k, (kind, a) in enumerate(zip(operands.FORMATS[m], tup)):
            if (isinstance(kind, tuple) or kind in ('cupper', 'nzshamt')) and isinstance(a, int):
                if 33 <= a <= 126 and chr(a) not in "'\\" and rng.random() < 0.5:
                    ops[k] = "'%s'" % chr(a)           # a character literal is an integer too
                    acc['ctr']['text_character_literal_operands'] += 1
                else:
                    ops[k] = exprs.spell_value(rng, a)
                acc['ctr']['text_expression_operands'] += 1
    line = m + (' ' + ', '.join(ops) if ops else '')
    if expr or alias:
        from ..gen import variants
        line = variants.comment(random.Random('c02-cmt-%s-%r' % (m, tup)), line, 0.5)
    acc['n'] += 1
    o = monitors.observe(asm, pre + line, tap=False)
    st, exp = operands.expected(m, tup)
    if not o.ok:
        if st == operands.ACCEPT:
            core.add_viol(acc, 'legal line %r is refused (%s: %s)' % ((pre + line).replace('\n', ' ; '), o.exc['type'], o.exc['msg']), {'kind': 'fwdtext', 'm': m, 'args': list(tup), 'alias': alias, 'expr': expr}, {})
        return
    acc['nt'] += 1
    acc['ctr']['text_accepted:' + m] += 1
    if skip:
        o.out = o.out[skip:]
    dec = monitors.decode_any(m, int.from_bytes(o.out, 'little')) if len(o.out) == 2 else ('%d bytes' % len(o.out), o.out.hex())
    if st == operands.REJECT or dec != exp:
        core.add_viol(acc, 'line %r assembles to %s which decodes to %r; the line named %s' % ((pre + line).replace('\n', ' ; '), o.out.hex(), dec, exp if st != operands.REJECT else 'something not representable'),
                      {'kind': 'fwdtext', 'm': m, 'args': list(tup), 'alias': alias, 'expr': expr}, {'status': st})


def sp_base_cases(asm, acc):
    """`c.lwsp rd, off(base)` / `c.swsp rs2, off(base)`: the instruction addresses the stack pointer and nothing else - a spelling
    that names another base register cannot be what the halfword does"""
    for m, reg in (('c.lwsp', 'x8'), ('c.swsp', 'a0')):
        for base in ('x9', 'gp', 'x0', 'nosuch', '9', 's1', 'sp', 'x2'):
            for off in (0, 4, 8, 252):
                line = '%s %s, %d(%s)' % (m, reg, off, base)
                acc['n'] += 1
                import warnings
                with warnings.catch_warnings():
                    warnings.simplefilter('ignore')         # Python itself warns about `4 (x9)` when the target evaluates it
                    o = monitors.observe(asm, line, tap=False)
                acc['ctr']['sp_relative_offset_base_spellings'] += 1
                acc['ntkeys'].add(core.ckey('spbase', line))
                if not o.ok:
                    continue
                if base not in ('sp', 'x2'):
                    core.add_viol(acc, 'line %r assembles to %s (an sp-relative access): the base register it names is not sp' % (line, o.out.hex()), {'kind': 'spbase'}, {})
                else:
                    want = asm.INSTRUCTIONS[m](reg, off)
                    if len(o.out) != 2 or int.from_bytes(o.out, 'little') != want:
                        core.add_viol(acc, 'line %r assembles to %s, the encoder gives %#06x for the same operands' % (line, o.out.hex(), want), {'kind': 'spbase'}, {})


def label_case(asm, acc, seed, idx):
    """explicit c.j / c.jal / c.beqz / c.bnez whose operand is a label: the immediate the halfword carries must be the distance
    to the label.  Mnemonic written in lower, upper or mixed case (all accepted by the parser)."""
    rng = random.Random('c02-lab-%d-%d' % (seed, idx))
    m = ['c.j', 'c.jal', 'c.beqz', 'c.bnez'][idx % 4]
    reach = 2046 if m in ('c.j', 'c.jal') else 254
    dist = rng.choice([0, 2, 4, 6, 30, 62, 126, 254, reach, reach - 2, 2 * rng.randrange(0, reach // 2 + 1)])
    back = rng.random() < 0.5
    spelled = [m, m.upper(), m.capitalize(), 'C.' + m[2:]][(idx // 4) % 4]
    reg = 'x%d, ' % rng.randrange(8, 16) if 'z' in m else ''
    pre = ['c.nop'] * rng.randrange(0, 5)
    if back:
        lines = pre + ['target:'] + (['string ' + 'G' * dist] if dist else []) + ['%s %starget' % (spelled, reg)]
        xi, want = len(lines) - 1, -dist
    else:
        lines = pre + ['%s %starget' % (spelled, reg)] + (['string ' + 'G' * (dist - 2)] if dist > 2 else []) + ['target:', 'c.nop']
        xi, want = len(pre), (dist if dist >= 2 else 2)
        if dist < 2:
            want = 2
    acc['n'] += 1
    lay = monitors.layout(asm, lines)
    case = {'kind': 'label', 'seed': seed, 'idx': idx}
    if not lay.obs.ok or lay.chunks is None:
        acc['ctr']['label_case_refused'] += 1
        return
    acc['nt'] += 1
    acc['ctr']['label_cases'] += 1
    data = lay.chunks[xi][1]
    st = lay.chunks[xi][0]
    tgt = lay.obs.labels.get('target')
    k, i = rv.decode16(int.from_bytes(data, 'little')) if len(data) == 2 else ('%d bytes' % len(data), None)
    if k != 'legal' or i['name'] != m or i['imm'] != tgt - st:
        core.add_viol(acc, 'line %r at offset %d with `target` at %r emitted %s = %s %r; the label is %+d bytes away' % (
            lines[xi], st, tgt, data.hex(), k, i, (tgt - st) if tgt is not None else 0), case, {'lines': [l[:40] for l in lines]})


def reverse_batch(asm, acc, lo, hi):
    """the canonical texts of all legal halfwords in [lo, hi) as ONE program: it assembles to exactly those halfwords, in order
    (neighbouring halfwords are the same instruction with the same registers and immediates one step apart)"""
    hs = [h for h in range(lo, hi) if rv.decode16(h)[0] == 'legal']
    if not hs:
        return
    texts = [canon_text(rv.decode16(h)[1]) for h in hs]
    o = monitors.observe(asm, '\n'.join(texts) + '\n', tap=False)
    acc['n'] += 1
    acc['ctr']['reverse_programs'] += 1
    acc['ntkeys'].add(core.ckey('revbatch', lo, hi))
    want = b''.join(h.to_bytes(2, 'little') for h in hs)
    case = {'kind': 'revbatch', 'lo': lo, 'hi': hi}
    if not o.ok:
        core.add_viol(acc, 'the %d canonical texts of the legal halfwords %#06x..%#06x, each of which assembles alone, are refused as one program (%s: %s)' % (
            len(hs), lo, hi - 1, o.exc['type'], o.exc['msg'][:100]), case, {})
    elif o.out != want:
        k = next((i for i in range(min(len(o.out), len(want)) // 2) if o.out[2 * i:2 * i + 2] != want[2 * i:2 * i + 2]), None)
        core.add_viol(acc, 'program of the canonical texts of the legal halfwords %#06x..%#06x: %s' % (
            lo, hi - 1, ('line %d `%s` assembles to %s, alone it is %#06x' % (k + 1, texts[k], o.out[2 * k:2 * k + 2].hex(), hs[k])) if k is not None
            else '%d bytes instead of %d' % (len(o.out), len(want))), case, {})


def warm_up(asm, acc):
    """history: before a shard does its own work, one legal instruction of every RVC mnemonic has been encoded in this interpreter, once
    by a direct call and once through text (the first legal halfword of every mnemonic, and the last) - what one encoder was asked to do
    says nothing about what another accepts afterwards"""
    first, last = {}, {}
    for h in range(0, 65536, 1):
        k, i = rv.decode16(h)
        if k == 'legal':
            first.setdefault(i['name'], i)
            last[i['name']] = i
    for i in list(first.values()) + list(last.values()):
        try:
            asm.INSTRUCTIONS[i['name']](*canon_args(i))
            asm.assemble(canon_text(i) + '\n')
            acc['ctr']['warm_up_instructions'] += 1
        except Exception:       # noqa - history, not the subject: the shard's own cases judge
            acc['ctr']['warm_up_refused'] += 1
    core.see(acc, 'warm_up_mnemonics', len(first))


def run_shard(sh, deadline):
    asm = core.load_asm()
    acc = core.new_acc()
    warm_up(asm, acc)
    if sh['kind'] == 'label':
        if sh['lo'] == 0:
            sp_base_cases(asm, acc)
        for idx in range(sh['lo'], sh['hi']):
            label_case(asm, acc, sh['seed'], idx)
        return acc
    if sh['kind'] == 'fwd':
        m = sh['m']
        core.see(acc, 'mnemonics_forward', m)
        first = True
        for regs in (REGS_INT, reg_names(sh['seed'])):
            for tup in itertools.product(*doms_for(m, regs)):
                if check_forward(asm, acc, m, tup, count_canon=regs is REGS_INT) and first:
                    first = False
                    core.add_sample(acc, {'forward': '%s%r' % (m, tup), 'halfword': '%#06x' % asm.INSTRUCTIONS[m](*tup)})
        # through text
        rng = random.Random('c02-%s-%d' % (m, sh['seed']))
        all_t = list(itertools.product(*doms_for(m, REGS_INT[1:-1])))
        if sh['tier'] == 'quick' and len(all_t) > 1500:
            all_t = rng.sample(all_t, 1500)
        for k, tup in enumerate(all_t):
            text_forward(asm, acc, m, tup, alias=(k % 3 == 2), expr=(k % 3 == 1))
            if time.time() > deadline:
                acc['truncated'] += 1
                break
    else:
        for h in range(sh['lo'], sh['hi']):
            check_reverse(asm, acc, h)
        for lo in range(sh['lo'], sh['hi'], 256):
            reverse_batch(asm, acc, lo, min(sh['hi'], lo + 256))
    return acc


def plan(tier, seed):
    shards = [{'kind': 'fwd', 'm': m, 'seed': seed, 'tier': tier} for m in RVC]
    shards.sort(key=lambda s: -len(IMMR.get(s['m'], [])) * (34 if len(operands.FORMATS[s['m']]) > 2 else 1))
    step = 2048
    shards += [{'kind': 'rev', 'lo': lo, 'hi': lo + step} for lo in range(0, 65536, step)]
    nl = 1600 if tier == 'quick' else 32000
    shards += [{'kind': 'label', 'seed': seed, 'lo': lo, 'hi': lo + 200} for lo in range(0, nl, 200)]
    return {'shards': shards, 'budget_s': 300 if tier == 'quick' else 1200, 'exhaustive': True}


def gates(acc, tier):
    g = []
    if len(acc['seen'].get('mnemonics_forward', ())) != 27:
        g.append('forward direction exercised %d/27 mnemonics' % len(acc['seen'].get('mnemonics_forward', ())))
    if len(acc['seen'].get('mnemonics_reverse', ())) != 27:
        g.append('reverse direction saw %d/27 mnemonics' % len(acc['seen'].get('mnemonics_reverse', ())))
    total = sum(v for k, v in acc['ctr'].items() if k.startswith('class:'))
    if total != 65536:
        g.append('reverse direction classified %d/65536 halfwords' % total)
    for m in RVC:
        if acc['ctr'].get('accepted:' + m, 0) == 0:
            g.append('no accepted tuple for %s' % m)
    if not acc['nviol'] and acc['ctr'].get('class:legal', 0) != acc['ctr'].get('accepted_canonical', 0):
        g.append('accepted canonical tuples (%d) and legal halfwords (%d) disagree although no violation was seen: the enumeration is incomplete' % (
            acc['ctr'].get('accepted_canonical', 0), acc['ctr'].get('class:legal', 0)))
    return g[:8]


def post(acc, tier):
    legal = acc['ctr'].get('class:legal', 0)
    canon = acc['ctr'].get('accepted_canonical', 0)
    return {'legal_halfwords': legal, 'accepted_canonical_int_tuples': canon,
            'one_to_one_counts_agree': legal == canon,
            'halfword_classes': {k[6:]: v for k, v in acc['ctr'].items() if k.startswith('class:')}}


def replay(case):
    asm = core.load_asm()
    acc = core.new_acc()
    if case['kind'] == 'label':
        label_case(asm, acc, case['seed'], case['idx'])
    elif case['kind'] == 'revbatch':
        reverse_batch(asm, acc, case['lo'], case['hi'])
    elif case['kind'] == 'spbase':
        sp_base_cases(asm, acc)
    elif case['kind'] == 'fwd':
        check_forward(asm, acc, case['m'], case['args'])
    elif case['kind'] == 'fwdtext':
        text_forward(asm, acc, case['m'], case['args'], alias=case.get('alias', False), expr=case.get('expr', False))
    else:
        check_reverse(asm, acc, case['h'])
    return acc
