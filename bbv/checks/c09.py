"""C09 - output is the in-order concatenation of items; align pads minimally with zeros.  DESIGN.md 4 / C09.

Oracle: an independent walk of the generated items over the observed per-line chunks (blob stream).
"""
import random
import time

from .. import core, monitors, progcheck
from ..gen import program as P, randprog

ID = 'C09'
LEVEL = 'exploration'
RULE = ('align sweep: `align N` for N in 1..33 (thorough: also 64,100,128,255,256,1000,4096) at every residue of the current '
        'offset, 1-4 aligns in a row, preceded/followed by compressible code and shrinking pseudo-instructions, both modes; plus '
        'random item sequences (data of all kinds, aligns incl. non powers of two, code, pseudos, labels, constants).  Every '
        'assembled build is walked: chunks in source order concatenating to the output, labels/constants 0 bytes, instructions '
        '2/4 (li/call/tail up to 8) bytes, data their documented size, align = (-offset) mod N zero bytes.  Non-trivial = an '
        'assembled build containing an align that pads > 0 bytes or an item whose size differs between the modes; distinct by '
        '(program text, compress).')
ASSUMPTIONS = ['per-line chunks come from the blob stream at asm.resolve_blobs (or fence labels), see DESIGN.md section 2']

SMALL_N = list(range(1, 34))
BIG_N = [64, 100, 128, 255, 256, 257, 300, 512, 1000, 4096]
HUGE_N = [4097, 4098, 5000, 8192, 10000, 0x8000, 65536, 100000, 1 << 20]


def walk(acc, items, ex, compress, rcase):
    """the independent layout walk"""
    off = 0
    nontrivial = False
    for idx, (it, (st, data)) in enumerate(zip(items, ex.lay.chunks)):
        k = it['k']
        if st != off:
            core.add_viol(acc, 'line %d (%s) starts at offset %d, the items before it end at %d' % (idx + 1, P.r_item(it)[:40], st, off), rcase, {})
            return False
        if k == 'align':
            n = it['n']
            want = (-off) % n
            core.see(acc, 'align_residues_%s' % ('c' if compress else 'u'), (n, off % n)) if n <= 33 else core.see(acc, 'big_align_residues', (n, off % n))
            acc['ctr']['aligns_checked'] += 1
            if len(data) != want or any(data):
                core.add_viol(acc, '`align %d` at offset %d emitted %d bytes %s; minimal zero padding is %d bytes' % (
                    n, off, len(data), data[:16].hex(), want), rcase, {'line': idx + 1})
                return False
            if want:
                nontrivial = True
        else:
            sizes = P.allowed_sizes(it, compress)
            if len(data) not in sizes:
                core.add_viol(acc, 'line %d `%s` emitted %d bytes (%s); documented sizes: %s' % (
                    idx + 1, P.r_item(it)[:50], len(data), data[:16].hex(), sorted(sizes)), rcase, {})
                return False
            if k == 'gap' and data != b'G' * it['n']:
                core.add_viol(acc, 'gap bytes changed', rcase, {})
            if k == 'string' and data != it['text'].encode('utf-8'):
                core.add_viol(acc, 'line %d `string %s` emitted %s, its UTF-8 text is %s' % (idx + 1, it['text'], data.hex(), it['text'].encode('utf-8').hex()), rcase, {})
            if k == 'seq':
                w = P.SEQ_W[it['d']]
                exp = b''.join((v % (1 << (8 * w))).to_bytes(w, 'little') for v in it['vals'])
                if data != exp:
                    core.add_viol(acc, 'line %d `%s` emitted %s, expected %s' % (idx + 1, P.r_item(it)[:50], data.hex(), exp.hex()), rcase, {})
        off += len(data)
    if off != len(ex.out):
        core.add_viol(acc, 'items account for %d bytes, output has %d' % (off, len(ex.out)), rcase, {})
        return False
    acc['ctr']['items_walked'] += len(items)
    return nontrivial


def code_block(rng, n):
    out = []
    for _ in range(n):
        c = rng.random()
        if c < 0.5:
            out.append(randprog.plain_inst(rng, 0.7))
        elif c < 0.75:
            out.append({'k': 'pseudo', 'm': 'li', 'ops': [randprog.R(rng), {'i': rng.choice(randprog.LI_VALUES)}]})
        elif c < 0.9:
            out.append({'k': 'pseudo', 'm': rng.choice(['call', 'tail']), 'ops': [{'t': 'START'}]})
        else:
            out.append({'k': 'pseudo', 'm': rng.choice(randprog.UNARY), 'ops': [randprog.R(rng), randprog.R(rng)]})
    return out


def sweep_program(rng, N, resid_shift):
    """prefix code, then data to move the residue, then 1-4 aligns, marker data, optionally more code"""
    items = [{'k': 'label', 'name': 'START'}]
    items += code_block(rng, rng.randint(0, 4))
    nb = resid_shift
    if nb:
        items.append({'k': 'seq', 'd': 'bytes', 'vals': [rng.randrange(1, 256) for _ in range(nb)]})
    items.append({'k': 'align', 'n': N})
    for _ in range(rng.choice([0, 0, 1, 2, 3])):
        if rng.random() < 0.5:
            items.append({'k': 'seq', 'd': 'bytes', 'vals': [rng.randrange(1, 256) for _ in range(rng.randint(1, 3))]})
        items.append({'k': 'align', 'n': rng.choice([N, rng.choice(SMALL_N)])})
    items.append({'k': 'label', 'name': 'AFTER'})
    items.append({'k': 'seq', 'd': 'bytes', 'vals': [0xa5]})
    # code after the align only with literal operands (offsets may be odd here: DESIGN.md 3.2)
    for _ in range(rng.randint(0, 3)):
        items.append(randprog.plain_inst(rng, 0.7))
    if rng.random() < 0.5:
        items.append({'k': 'align', 'n': rng.choice(SMALL_N)})
        items.append({'k': 'pseudo', 'm': 'li', 'ops': [randprog.R(rng), {'i': rng.choice(randprog.LI_VALUES)}]})
    return items


RAND_CFGS = [
    dict(w_xfer=0, w_labimm=0, w_align=16, w_data=14, w_string=6, odd_align=True, n=(3, 40)),
    dict(w_xfer=14, w_labimm=6, w_align=12, w_data=8, odd_align=False, n=(3, 50)),
]


def run_case(asm, acc, case):
    kind = case['kind']
    if kind == 'sweep':
        # measure where the first align lands in the targeted mode without extra data, then add exactly the bytes that put it
        # at residue `shift` in that mode (the other mode is walked as well, at whatever residue it gets)
        seedtxt = 'c09-sweep-%d-%d-%d-%s' % (case['seed'], case['N'], case['shift'], case['mode'])
        probe = sweep_program(random.Random(seedtxt), case['N'], 0)
        pex = progcheck.examine(asm, probe, case['mode'] == 'c', judge=False)
        nb = case['shift']
        if pex.ok and not pex.layout_problem:
            ai = next(i for i, it in enumerate(probe) if it['k'] == 'align')
            nb = (case['shift'] - pex.lay.chunks[ai][0]) % case['N']
        items = sweep_program(random.Random(seedtxt), case['N'], nb)
    elif case['idx'] % 50 == 49:
        rng = random.Random('c09-tiny-%d-%d' % (case['seed'], case['idx']))
        # degenerate programs: nothing, only labels / constants / comments, a lone align, a lone empty-ish datum
        pool = [[], [{'k': 'label', 'name': 'ONLY'}], [{'k': 'const', 'name': 'KONLY', 'value': 5, 'text': '5'}], [{'k': 'align', 'n': rng.choice([1, 4, 7, 64])}],
                [{'k': 'label', 'name': 'A0'}, {'k': 'align', 'n': 8}, {'k': 'label', 'name': 'A1'}], [{'k': 'raw', 'text': '# just a comment'}],
                [{'k': 'seq', 'd': 'bytes', 'vals': [7]}, {'k': 'align', 'n': rng.choice([2, 3, 5, 16])}], [{'k': 'gap', 'n': 1}]]
        items = rng.choice(pool)
    else:
        rng = random.Random('c09-rand-%d-%d' % (case['seed'], case['idx']))
        items = randprog.gen(rng, RAND_CFGS[case['idx'] % len(RAND_CFGS)])
        if case['idx'] % 2:
            # "labels and constants contribute nothing": constants (never used) whose names look like directives / mnemonics in some
            # letter case, and labels of that kind, sprinkled between the items
            for _ in range(rng.randint(1, 4)):
                nm = rng.choice(['STRING', 'String', 'ERROR', 'Error', 'BYTES', 'Align', 'PACK', 'Db', 'INCLUDE', 'Include_bytes', 'NOP', 'Li', 'string_', 'errors'])
                k = rng.randrange(len(items) + 1)
                if rng.random() < 0.7:
                    items.insert(k, {'k': 'const', 'name': nm, 'value': rng.randrange(0, 100), 'text': str(rng.randrange(0, 100))})
                elif not any(it['k'] == 'label' and it['name'] == nm + '_L' for it in items):
                    items.insert(k, {'k': 'label', 'name': nm + '_L'})
        if case['idx'] % len(RAND_CFGS) == 0:
            # odd offsets are allowed here; drop anything with a pc-relative label operand that may have slipped in
            items = [it for it in items if not (it['k'] in ('inst', 'pseudo') and P.label_dependent(it['ops']))]
    sizes = {}
    eol = '\r\n' if (case.get('idx', case.get('shift', 0)) % 4 == 3) else '\n'
    core.see(acc, 'line_endings', repr(eol))
    for compress in (False, True):
        acc['n'] += 1
        rcase = dict(case, compress=compress)
        ex = progcheck.examine(asm, items, compress, judge=False, eol=eol)
        if not ex.ok:
            acc['ctr']['refused'] += 1
            acc['ctr']['refused:' + ex.exc['msg'][:40]] += 1
            continue
        if ex.layout_problem:
            core.add_viol(acc, 'output is not the in-order concatenation of the per-line chunks: ' + ex.layout_problem, rcase, {'lines': ex.lines[:40]})
            continue
        acc['ctr']['layout_via_' + ex.lay.via] += 1
        nt = walk(acc, items, ex, compress, rcase)
        sizes[compress] = [len(c[1]) for c in ex.lay.chunks]
        if nt or (False in sizes and True in sizes and sizes[False] != sizes[True]):
            acc['ntkeys'].add(core.ckey(kind, case.get('N'), case.get('shift'), case.get('idx'), case['seed'], compress))
        acc['ctr']['builds_walked'] += 1
    if case.get('sample'):
        core.add_sample(acc, {'program': P.render(items)[:12], 'chunk_sizes_uncompressed': sizes.get(False), 'chunk_sizes_compressed': sizes.get(True)})


def include_case(asm, acc, seed, idx):
    """items spread over included files (a file may be included twice): the output is the concatenation in source order, i.e. what
    the same lines give when written in one file"""
    import os
    import shutil
    import tempfile
    from . import c14
    rng = random.Random('c09-inc-%d-%d' % (seed, idx))
    root = tempfile.mkdtemp(prefix='bbv-c09-')
    try:
        t = c14.gen_tree(rng, root)
        c14.write_tree(t, root)
        for compress in (False, True):
            ref = monitors.observe(asm, '\n'.join(t.flat) + '\n', compress, tap=False)
            o = monitors.observe(asm, t.main, compress, include_dirs=list(t.incdirs), tap=False)
            acc['n'] += 1
            acc['ctr']['include_layouts'] += 1
            if t.double:
                acc['ntkeys'].add(core.ckey('inc', seed, idx, compress))
            if ref.ok and (not o.ok or o.out != ref.out):
                core.add_viol(acc, 'program spread over %d included files (repeated include: %s, compress=%s) gives %s, the same lines in one file give %d bytes' % (
                    len(t.files), t.double, compress, ('%d bytes' % len(o.out)) if o.ok else o.exc['msg'], len(ref.out)), {'kind': 'inc', 'seed': seed, 'idx': idx}, {})
    finally:
        shutil.rmtree(root, ignore_errors=True)


def run_shard(sh, deadline):
    asm = core.load_asm()
    acc = core.new_acc()
    for i, case in enumerate(sh['cases']):
        if case['kind'] == 'inc':
            include_case(asm, acc, case['seed'], case['idx'])
            continue
        if i == 0:
            case = dict(case, sample=True)
        run_case(asm, acc, case)
        if time.time() > deadline:
            acc['truncated'] += 1
            break
    return acc


def plan(tier, seed):
    cases = []
    # (alignments above 256 in the quick tier too: small integers are cached objects in CPython, larger ones are not)
    # (and far above: a padding of tens of kilobytes is one `align`, e.g. in front of a flash page or a RAM image)
    ns = SMALL_N + (BIG_N if tier == 'thorough' else [64, 256, 257, 300, 512, 1000, 4096]) + HUGE_N
    for N in ns:
        shifts = range(N) if N <= 33 or (tier == 'thorough' and N <= 4096) else [0, 1, N // 2, N - 1] + ([2, 3, N // 4, N - 4097, N - 4096, N - 2] if N > 4096 else [])
        for r in shifts:
            for mode in 'uc':
                cases.append({'kind': 'sweep', 'N': N, 'shift': r, 'seed': seed, 'mode': mode})
    nrand = 2000 if tier == 'quick' else 100000
    cases += [{'kind': 'rand', 'idx': i, 'seed': seed} for i in range(nrand)]
    cases += [{'kind': 'inc', 'idx': i, 'seed': seed} for i in range(120 if tier == 'quick' else 3000)]
    nsh = 64 if tier == 'quick' else 512
    shards = [{'cases': cases[i::nsh]} for i in range(nsh)]
    return {'shards': shards, 'budget_s': 240 if tier == 'quick' else 3000}


def gates(acc, tier):
    g = []
    for mode in 'uc':
        seen = acc['seen'].get('align_residues_' + mode, set())
        missing = [(n, r) for n in SMALL_N for r in range(n) if (n, r) not in seen]
        if missing:
            g.append('align residues never observed (mode %s): %d of %d, e.g. %s' % (mode, len(missing), sum(SMALL_N), missing[:4]))
    if acc['ctr']['builds_walked'] < 0.8 * acc['n']:
        g.append('%d of %d builds were refused' % (acc['ctr']['refused'], acc['n']))
    return g


def post(acc, tier):
    return {'align_N_le_33_residue_pairs_seen_uncompressed': len(acc['seen'].get('align_residues_u', ())),
            'align_N_le_33_residue_pairs_seen_compressed': len(acc['seen'].get('align_residues_c', ())),
            'align_N_le_33_residue_pairs_total': sum(SMALL_N)}


def replay(case):
    asm = core.load_asm()
    acc = core.new_acc()
    c = {k: v for k, v in case.items() if k != 'compress'}
    if c['kind'] == 'inc':
        include_case(asm, acc, c['seed'], c['idx'])
    else:
        run_case(asm, acc, c)
    return acc
