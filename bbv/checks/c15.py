"""C15 - a faulty line is reported as AssemblerError naming that file and line.  DESIGN.md section 4 / C15.

Fault enumeration: exactly one faulty line is planted into an otherwise valid program, at every line position, at
include depth 0..3, with compression off and on; the failure observed at the assemble() boundary must be the
assembler's own error class carrying the file and the 1-based physical line number of that line.  Through the CLI:
exit status 1, `File "<path>", line N` on stderr, no traceback.
"""
import os
import random
import shutil
import tempfile
import time

from .. import core, monitors, cli

ID = 'C15'
LEVEL = 'fault_enumeration'
RULE = ('fault classes {operand out of range (instruction immediates of every format, shift amounts, data values), unknown register, '
        'undefined label (branch, jump, call, li, dw), undefined constant, malformed expression, non-integer expression, error directive, '
        'missing include / include_bytes file} x carriers {real instructions, pseudo-instructions, data directives, constant definitions} '
        'x every line position of a valid base program x include depth 0..3 x compress off/on, plus CLI runs.  One case = one planted '
        'fault.  Non-trivial = every plant (the program is valid without it: checked once per base program); distinct by '
        '(fault line, position, depth, compress).')
ASSUMPTIONS = ['duplicate label definitions are currently accepted by the assembler, so that clause of the property is vacuous and only checked if refused']

BASE = ['START:', 'KR = 40', 'K1 = 12', 'addi x8, x8, K1', 'li x5, 0x12345', 'beqz x8, START', 'MID:', 'lw x9, 4(x8)', 'bytes 1 2 3 4', 'align 4',
        'call END', 'dw MID', 'K3 = K1 + 1', 'add x10, x10, x11', 'K4 = K3 * 2 + K1', 'dh K4', 'END:', 'ret']          # (K3, K4: valid constants that build on K1)

FAULTS = {
    'range': ['addi x1, x1, 5000', 'addi x1, x1, -2049', 'lw x1, x2, 2048', 'lw x1, 4096(x2)', 'sw x1, x2, -3000', 'lui x1, 0x100000', 'auipc x1, -524289',
              'beq x1, x2, 5000', 'bne x8, x0, 4096', 'jal x1, 2097152', 'jalr x1, x1, 3', 'slli x1, x1, 32', 'srai x8, x8, 40', 'c.addi x1, 100',
              'c.lw x8, x9, 128', 'c.j 4000', 'csrrw x1, x2, 5000', 'fence 16, 1', 'db 256', 'dh 70000', 'dw 0x100000000', 'dd -0x8000000000000001',
              'bytes 1 2 256', 'shorts 65536', 'ints -2147483649', 'pack <B 256', 'pack <h, 40000', 'addi x8, x8, 32 * 100', 'bytes 1 256', 'pack >H 65536', 'align 0', 'align 0x0', 'align 1 - 1', 'align (0)', 'align K1 - 12', 'align 0 * 4', 'align K1 - K1', 'align -K1', 'align 99999999999999999999', 'align 0x100000001', 'DB 256', 'Dh 70000', 'DW 0x100000000', 'BYTES 1 2 256', 'ADDI x1, x1, 5000', 'Pack <B 256'],
    'unknown_register': ['add x1, x1, foo', 'addi x32, x1, 1', 'mv x1, foo', 'lw foo, 0(x1)', 'sw x1, 0(bar)', 'c.mv x1, foo', 'li foo, 1', 'sub x8, x8, x99',
                         'slli x8, x8, foo', 'and x8, x8, q', 'neg a9, a0', 'jr x40', 'beq foo, x0, START', 'c.addi foo, 1', 'amoadd.w x1, x2, foo', 'csrrw foo, x1, 1',
                         'addi KR, x9, 1', 'mv KR, x5', 'sub x8, KR, x9', 'lw x9, 4(KR)', 'c.mv KR, x5', 'li KR, 1'],      # a register number that arrives through a constant
    'undefined_label': ['beq x1, x2, nolabel', 'j nolabel', 'jal x1, nolabel', 'jal nolabel', 'call nolabel', 'tail nolabel', 'li x5, nolabel', 'dw nolabel',
                        'beqz x8, nolabel', 'bgt x1, x2, nolabel', 'c.j nolabel', 'c.beqz x8, nolabel', 'lui x5, %hi(nolabel)', 'addi x5, x5, %lo(nolabel)',
                        'li x5, %position(nolabel, 4)', 'auipc x5, %hi(%offset(nolabel))', 'pack <I nolabel'],
    'undefined_constant': ['addi x1, x1, NOCONST', 'K2 = NOCONST + 1', 'K1 = NOCONST + 1', 'K3 = NOCONST', 'K1 = K1 + NOCONST', 'db NOCONST', 'li x5, NOCONST * 2', 'lw x8, NOCONST(x8)', 'andi x8, x8, NOCONST',
                           'lui x8, NOCONST', 'c.li x8, NOCONST', 'dw %position(START, NOCONST)'],
    'malformed_expression': ['addi x1, x1, 1 +', 'K2 = * 2', 'K1 = (1', 'K1 = 12 +', 'K2 = (1', 'K2 = 1)', 'K2 = 1 2', "K2 = 'ab'", "K2 = '\\'", 'li x1, 1 +', 'dw (1', 'lw x1, x2, (1',
                             'db 1 +* 2', 'K2 = 5 5', 'addi x8, x8, )', 'pack <I ((3)', 'sw x1, x2, 4 4', 'li x5, 0x', 'K2 = 0b12', 'dh 12ab', 'lui x5, %hi(', 'li x5, %hi((1)',
                             'j (', 'call (', 'tail (1', 'beqz x8, (', 'bgt x1, x2, (', 'jal (', 'bnez x8, )',
                             # quoted text that is no character literal, in every position that takes a number
                             "bytes 1 2 'ab'", "bytes ''", "shorts 7 '\\q' 9", "ints 'xy' 1", "longs ''", "longlongs 1 'abc'", "db 'ab'", "dw ''", "dh 'a' 'b'",
                             "pack <B 'ab'", "addi x1, x1, 'ab'", "li x5, ''", "align 'ab'", "lw x8, 'ab'(x8)", "K2 = ''"],
    'expression_evaluation': ['K2 = 1 << -1', 'addi x1, x1, 1 << -1', 'li x5, 1 << (K1 - 20)', 'dw 1 >> -2', 'K2 = 7 // 0', 'db 7 % 0', 'lui x5, 1 << (K1 - 13)',
                              'K2 = K1 // (K1 - 12)', 'sw x1, x2, 4 % 0', 'pack <I 1 << -4'],
    'non_integer': ['K2 = 1.5', 'K1 = 1.5', 'K3 = 0.5 + K1', 'K2 = 4 / 2', 'K2 = "s"', 'addi x1, x1, 1.5', 'dw 2.0', 'li x5, 1e3', 'db 3 / 1', 'K2 = None', 'lw x8, 0.0(x8)', 'dh [1]',
                    'fence rw, rw', 'fence 3, w', 'fence iorw, 1', 'fence 1.5, 1', 'amoadd.w x1, x2, x3, yes, 0', 'lr.w x1, x2, 0, aq'],
    # a constant has no position: a position-relative modifier in its definition (at any nesting depth) names nothing
    'position_relative_constant': ['K2 = %offset(START)', 'K2 = %hi(%offset(START))', 'K2 = %lo(%offset(K1))', 'K2 = %lo(%offset(sp))',
                                   'K2 = %hi(%lo(%offset(K1)))', 'K2 = %lo(%offset(8))'],
    'twin_text': ['beqz x8, START'],
    # a faulty item written behind a label on the same line (whether or not the tree knows that spelling, the line is at fault and is the one to name)
    'labelled_item': ['LX1: addi x1, x1, 5000', 'LX2: add x1, x1, foo', 'LX3: j nolabel', 'LX4: dw NOCONST', 'LX5: lw x1, 4096(x2)', 'LX6:  li x5, 1 +', 'LX7: K9 = 1.5'],
    # text after `string` / `error` with a backslash sequence that is no escape: if such a line is refused, then properly
    'malformed_text': ['string \\N{é}', 'error \\N{é} \\N{x \\t y}', 'string \\N{}', "K2 = '\\x41'#'A'"],
    'unreadable_include': ['include latin1.asm'],
    'error_directive': ['error this board is not supported', '  error indented message # with hash', 'error (paren, comma', 'error x',
                        'error see C:\\Users\\me\\boards.txt', 'error 100\\% wrong \\', 'error caf\u00e9 \\x4 \\N{nothing}', 'error \\ud800'],
    'missing_include': ['include nosuch_file.asm', 'include "nosuch dir/f.asm"', 'include_bytes nosuch.bin', 'include',
                        'include .', 'include_bytes .', 'include ..',          # a directory is not an include file
                        'include ' + 'n' * 300 + '.asm', 'include_bytes ' + 'b' * 300 + '.bin', 'include ' + 'd/' * 2500 + 'f.asm',     # names the file system cannot even hold
                        'include a\x01b.asm', 'include nosuch/../nosuch.asm', 'include /nosuch_root_dir/f.asm', 'include_bytes /dev/null/x'],
}


_RB = {}


def rand_base(k):
    """an otherwise valid program other than BASE: random instructions, pseudo-instructions, data, aligns and labels, with the names the
    planted lines refer to (START, KR, K1, MID, END).  No transfer or label-dependent immediate sits near the edge of its range, so a
    planted line that changes the layout cannot make a *second* line faulty"""
    if k not in _RB:
        from ..gen import randprog, program as P
        rng = random.Random('c15-base-%d' % k)
        items = randprog.gen(rng, dict(n=(4, 28), labels=(1, 4), w_xfer=0, w_labimm=0, w_gap=0, big_gap=0))
        body = [ln for ln in P.render(items)]
        cut = rng.randrange(len(body) + 1)
        _RB[k] = ['START:', 'KR = 40', 'K1 = 12'] + body[:cut] + ['MID:', 'j START', 'dw MID'] + body[cut:] + ['END:', 'ret']
    return _RB[k]


def plant_api(asm, acc, fault_class, fault, pos, depth, compress, root=None, base=None):
    """-> nothing; records violations"""
    BASE = globals()['BASE'] if base is None else rand_base(base)          # noqa: shadows the module-level program on purpose
    if base is not None:
        pos = pos % (len(BASE) + 1) if fault not in ODD else len(BASE)     # (an odd-sized plant in front of an `align` would move code by an odd amount)
        ok = _RB.get(('ok', base, compress))
        if ok is None:
            ok = _RB[('ok', base, compress)] = monitors.observe(asm, '\n'.join(BASE) + '\n', compress, tap=False).ok
        if not ok:
            acc['ctr']['random_base_refused'] += 1
            return
        acc['ctr']['plants_in_random_programs'] += 1
    acc['n'] += 1
    lines = BASE[:pos] + [fault] + BASE[pos:]
    if fault.startswith('K1 = '):
        # the faulty line *is* the definition of K1 (it takes the place of `K1 = 12`): everything that builds on K1 cannot be
        # evaluated either, but the one faulty line is this one
        pos = BASE.index('K1 = 12')
        lines = BASE[:pos] + [fault] + BASE[pos + 1:]
    shift = 0
    if fault_class == 'twin_text':
        # the faulty line has the very same text as an earlier line that is fine: here only its position makes it a fault
        pos = max(pos, 5)
        lines = BASE[:pos] + ['string ' + 'G' * 5000, fault] + BASE[pos:]
        shift = 1
    case = {'kind': 'api', 'class': fault_class, 'fault': fault, 'pos': pos, 'depth': depth, 'compress': compress, 'base': base}
    acc['ntkeys'].add(core.ckey(fault, pos, depth, compress, base))
    core.see(acc, 'cells', '%s/%s/%s' % (fault_class, carrier(fault), 'c' if compress else 'u'))
    if depth == 0:
        eol = ['\n', '\r\n', '\r', '\n'][(pos + len(fault)) % 4]         # program text handed in as a string: LF, CR LF or bare CR line ends
        o = monitors.observe(asm, eol.join(lines) + eol, compress, tap=False)
        want_file, want_line = '<string>', pos + 1 + shift
        same_file = lambda f: f == '<string>'  # noqa
    else:
        # chain of files: main includes d1 includes d2 ...; the deepest holds the planted program
        names = ['main.asm'] + ['d%d.asm' % i for i in range(1, depth + 1)]
        extra = 0
        lead = [[], ['', ''], ['   ', '# header comment', ''], ['\t'], ['# page break \x0c in a comment', 'nop # \u2028 \x85 \x0b'], ['# \x1c\x1d\x1e']][(pos + 2 * depth) % 6]      # blank lines count as lines
        if (pos + depth) % 2 == 0:
            # a binary include that resolves fine sits before the planted line in the same file
            with open(os.path.join(root, 'blob.bin'), 'wb') as f:
                f.write(b'\x01\x02\x03\x04')
            lines = ['include_bytes blob.bin'] + lines
            extra = 1
        lines = lead + lines
        extra += len(lead)
        with open(os.path.join(root, 'latin1.asm'), 'wb') as f:
            f.write(b'# caf\xe9 \xff\xfe\nnop\n')          # exists, but is not UTF-8 text
        for i, n in enumerate(names):
            p = os.path.join(root, n)
            if i == depth:
                body = lines
            else:
                pre = ['# level %d' % i, 'addi x%d, x%d, %d' % (i + 1, i + 1, i)] * (i % 2 + 1)
                body = pre + ['include %s' % names[i + 1]] + ['nop', '# after']
            with open(p, 'w') as f:
                f.write('\n'.join(body) + '\n')
        o = monitors.observe(asm, os.path.join(root, 'main.asm'), compress, tap=False)
        want_file, want_line = os.path.join(root, names[depth]), pos + 1 + extra + shift
        same_file = lambda f: isinstance(f, str) and os.path.realpath(f) == os.path.realpath(want_file)  # noqa
    if o.ok:
        # the fault was not a fault for this tree (e.g. a refactoring started accepting the syntax): nothing is refused, so the
        # property (which speaks about refused programs) has nothing to say; counted
        acc['ctr']['planted_but_accepted'] += 1
        core.see(acc, 'accepted_plants', fault)
        return
    e = o.exc
    acc['ctr']['refusals_observed'] += 1
    if not e['is_asm_error']:
        core.add_viol(acc, 'planted `%s` (%s, line %d, include depth %d, compress=%s) escapes as %s: %s - not the assembler\'s own error' % (
            fault, fault_class, want_line, depth, compress, e['type'], e['msg'][:120]), case, {'exc': e}, key=classify(fault_class, fault, e))
    elif not same_file(e.get('file')) or e.get('number') != want_line:
        core.add_viol(acc, 'planted `%s` (%s) at %s line %d (include depth %d, compress=%s) is reported at file %r line %r: %s' % (
            fault, fault_class, os.path.basename(want_file), want_line, depth, compress, e.get('file'), e.get('number'), e['msg'][:100]), case, {'exc': e},
            key=classify(fault_class, fault, e))


def vanished_include(asm, acc, root, kind, compress):
    """history: the program assembled while its include existed; the file is removed; the same program must now be refused as a
    missing include at the include line (AssemblerError), not with an internal exception"""
    name = 'gone_%s.%s' % (kind, 'asm' if kind == 'include' else 'bin')
    path = os.path.join(root, name)
    with open(path, 'w') as f:
        f.write('nop\n' if kind == 'include' else 'AB')
    main = os.path.join(root, 'vmain_%s.asm' % kind)
    lines = ['addi x1, x1, 1', 'nop', '%s %s' % (kind, name), 'ret']
    with open(main, 'w') as f:
        f.write('\n'.join(lines) + '\n')
    first = monitors.observe(asm, main, compress, tap=False)
    os.unlink(path)
    o = monitors.observe(asm, main, compress, tap=False)
    acc['n'] += 1
    acc['ntkeys'].add(core.ckey('vanished', kind, compress))
    acc['ctr']['vanished_include_cases'] += 1
    case = {'kind': 'vanished', 'what': kind, 'compress': compress}
    if not first.ok:
        acc['ctr']['vanished_first_call_refused'] += 1
        return
    if o.ok:
        core.add_viol(acc, '`%s %s` still assembles after the file was removed (earlier call in the same interpreter resolved it)' % (kind, name), case, {})
    elif not o.exc['is_asm_error'] or o.exc.get('number') != 3 or os.path.realpath(str(o.exc.get('file'))) != os.path.realpath(main):
        core.add_viol(acc, '`%s %s` after the file was removed: %s: %s at %r line %r - expected the assembler\'s own error at %s line 3' % (
            kind, name, o.exc['type'], o.exc['msg'][:80], o.exc.get('file'), o.exc.get('number'), os.path.basename(main)), case, {})


def carrier(fault):
    h = fault.split()[0] if fault.split() else ''
    if len(fault.split()) > 1 and fault.split()[1] == '=':
        return 'const'
    if h in ('db', 'dh', 'dw', 'dd', 'bytes', 'shorts', 'ints', 'longs', 'longlongs', 'pack'):
        return 'data'
    if h in ('li', 'mv', 'neg', 'j', 'call', 'tail', 'beqz', 'bgt', 'jr'):
        return 'pseudo'
    if h in ('error', 'include', 'include_bytes'):
        return h
    return 'inst'


def classify(fault_class, fault=None, e=None):
    return None


def plant_cli(asm, acc, fault_class, fault, pos, depth, compress):
    if fault_class == 'twin_text':
        return
    root = tempfile.mkdtemp(prefix='bbv-c15-')
    try:
        lines = BASE[:pos] + [fault] + BASE[pos:]
        names = ['main.asm'] + ['d%d.asm' % i for i in range(1, depth + 1)]
        for i, n in enumerate(names):
            body = lines if i == depth else ['nop', 'include %s' % names[i + 1], 'nop']
            with open(os.path.join(root, n), 'w') as f:
                f.write('\n'.join(body) + '\n')
        acc['n'] += 1
        case = {'kind': 'cli', 'class': fault_class, 'fault': fault, 'pos': pos, 'depth': depth, 'compress': compress}
        r = cli.run_cli(['main.asm', '-o', 'o.bin'] + (['-c'] if compress else []), root)
        acc['ctr']['cli_runs'] += 1
        acc['ntkeys'].add(core.ckey('cli', fault, pos, depth, compress))
        if r.returncode == 0:
            acc['ctr']['planted_but_accepted'] += 1
            return
        import re
        fname = names[depth]
        probs = []
        if 'Traceback' in r.stderr:
            probs.append('traceback on stderr (%s)' % r.stderr.strip().splitlines()[-1][:100])
        if r.returncode != 1:
            probs.append('exit status %d' % r.returncode)
        # the message must name the file and the 1-based line number (format not prescribed by the property)
        if fname not in r.stderr or not re.search(r'(?<![0-9])%d(?![0-9])' % (pos + 1), r.stderr.replace(root, '')):
            probs.append('stderr does not name %s line %d' % (fname, pos + 1))
        if probs:
            core.add_viol(acc, 'CLI with planted `%s` (%s, include depth %d, compress=%s): %s' % (fault, fault_class, depth, compress, '; '.join(probs)), case,
                          {'stderr': r.stderr[-400:]})
    finally:
        shutil.rmtree(root, ignore_errors=True)


def run_shard(sh, deadline):
    asm = core.load_asm()
    acc = core.new_acc()
    root = tempfile.mkdtemp(prefix='bbv-c15-')
    try:
        if sh.get('base_check'):
            for compress in (False, True):
                o = monitors.observe(asm, '\n'.join(BASE) + '\n', compress, tap=False)
                acc['ctr']['base_program_ok'] += 1 if o.ok else 0
                if not o.ok:
                    acc['notes'].append('base program refused: %r' % (o.exc,))
        if sh.get('base_check'):
            for kind in ('include', 'include_bytes'):
                for compress in (False, True):
                    vanished_include(asm, acc, root, kind, compress)
        for (cls, fault, pos, depth, compress, via, *rest) in sh['plants']:
            if via == 'api':
                plant_api(asm, acc, cls, fault, pos, depth, compress, root, base=rest[0] if rest else None)
            else:
                plant_cli(asm, acc, cls, fault, pos, depth, compress)
            if time.time() > deadline:
                acc['truncated'] += 1
                break
        if sh['plants']:
            p = sh['plants'][0]
            core.add_sample(acc, {'planted_fault': p[1], 'class': p[0], 'line_position': p[2] + 1, 'include_depth': p[3], 'compress': p[4], 'via': p[5]})
    finally:
        shutil.rmtree(root, ignore_errors=True)
    return acc


# planted lines that would emit an odd number of bytes if accepted: planted only where no pc-relative reference of the base
# program crosses them (start / end), so that the plant stays the *only* faulty line
ODD = {"bytes 1 2 'ab'", "bytes ''", "db 'ab'", "pack <B 'ab'", 'include_bytes .', 'include_bytes ' + 'b' * 300 + '.bin', 'include_bytes /dev/null/x', 'DB 256', 'BYTES 1 2 256', 'Pack <B 256', 'db 7 % 0', 'db 256', 'bytes 1 2 256', 'pack <B 256', 'db NOCONST', 'db 1 +* 2', 'db 3 / 1', 'include_bytes nosuch.bin'}


def plan(tier, seed):
    rng = random.Random('c15-plan-%d' % seed)
    plants = []
    positions = list(range(len(BASE) + 1))
    for cls, faults in FAULTS.items():
        for fault in faults:
            for compress in (False, True):
                if tier == 'thorough':
                    for pos in (positions if fault not in ODD else [0, len(BASE)]):
                        for depth in range(4):
                            plants.append((cls, fault, pos, depth, compress, 'api'))
                else:
                    # every position and every depth is used for every fault class; each fault line gets 4 (position, depth) pairs
                    for k in range(4):
                        pos = positions[(rng.randrange(len(positions)) + k * 4) % len(positions)]
                        if fault in ODD:
                            pos = [0, len(BASE)][k % 2]
                        plants.append((cls, fault, pos, k, compress, 'api'))
    # the same fault lines inside other "otherwise valid programs": random ones (quick: one per fault line, thorough: 300)
    nb = 0
    for cls, faults in FAULTS.items():
        if cls == 'twin_text':
            continue
        for fault in faults:
            for r in range(1 if tier == 'quick' else 300):
                nb += 1
                plants.append((cls, fault, rng.randrange(0, 1000), rng.randrange(4) if r % 2 else 0, bool((nb + r) & 1), 'api', (nb * 7 + seed) % (40 if tier == 'quick' else 20000)))
    ncli = 60 if tier == 'quick' else 600
    allf = [(c, f) for c, fs in FAULTS.items() for f in fs]
    for k in range(ncli):
        cls, fault = allf[(k * 7 + seed) % len(allf)]
        plants.append((cls, fault, rng.choice(positions) if fault not in ODD else len(BASE), k % 3, bool(k & 1), 'cli'))
    nsh = 32 if tier == 'quick' else 256
    shards = [{'plants': plants[i::nsh], 'base_check': i == 0} for i in range(nsh)]
    return {'shards': shards, 'budget_s': 300 if tier == 'quick' else 3000, 'extra_cov': {'plants_planned': len(plants), 'fault_lines': len(allf)},
            'exhaustive': False}


def gates(acc, tier):
    g = []
    if acc['ctr']['base_program_ok'] != 2:
        g.append('the base program without a planted fault does not assemble in both modes')
    need = set()
    for cls, faults in FAULTS.items():
        for f in faults:
            for m in 'uc':
                need.add('%s/%s/%s' % (cls, carrier(f), m))
    miss = need - acc['seen'].get('cells', set())
    if miss:
        g.append('fault cells never planted: %s' % sorted(miss)[:5])
    if acc['ctr']['planted_but_accepted'] > 0.1 * acc['n']:
        g.append('%d planted faults were accepted: %s' % (acc['ctr']['planted_but_accepted'], sorted(acc['seen'].get('accepted_plants', ()))[:6]))
    if acc['ctr']['cli_runs'] == 0:
        g.append('no CLI run')
    return g


def post(acc, tier):
    return {'planted_faults_that_were_accepted': sorted(acc['seen'].get('accepted_plants', ()))}


def replay(case):
    asm = core.load_asm()
    acc = core.new_acc()
    root = tempfile.mkdtemp(prefix='bbv-c15-')
    try:
        if case['kind'] == 'vanished':
            vanished_include(asm, acc, root, case['what'], case['compress'])
        elif case['kind'] == 'api':
            plant_api(asm, acc, case['class'], case['fault'], case['pos'], case['depth'], case['compress'], root, base=case.get('base'))
        else:
            plant_cli(asm, acc, case['class'], case['fault'], case['pos'], case['depth'], case['compress'])
    finally:
        shutil.rmtree(root, ignore_errors=True)
    return acc
