"""C17 - the CLI writes exactly the program, or nothing.  DESIGN.md section 4 / C17.

The real command line runs in a subprocess (P6).  Success: -o bytes, -l lines and the Intel HEX file are decoded by
reference readers and compared with the API result / blob-stream offsets.  Failure: natural faults surfacing in each
pass and injected failures (a launcher rebinds one of the 17 functions assemble() calls to raise on entry), always with
older output files of different content present; they must be untouched and the exit status non-zero.
"""
import os
import random
import shutil
import tempfile
import time

from .. import core, monitors, cli, progcheck
from ..gen import program as P, randprog
from ..refmodel import ihex

ID = 'C17'
LEVEL = 'fault_enumeration'
RULE = ('success: random programs x {-c} x {-i 0..2} x {-o default / explicit} x {-l} x {--hex-offset 0, 0x08000000, 0x20000000, images > 64 KiB} x '
        '{--include-definitions with a real definitions include}; failure: natural faults that surface in each pass (missing include, error '
        'directive, undefined constant, compression-predicate fault, undefined li operand, undefined label, out-of-range operand, data misfit, '
        'include_bytes naming a directory, invalid --hex-offset text, missing input, bad -i) and injected failures in each of the 17 '
        'functions assemble() calls (AssemblerError and RuntimeError), every failing run with pre-existing -o / -l / .hex files of other content. '
        'One case = one CLI run.  Non-trivial = every run (each has its own option / fault combination); distinct by (options, fault).')
ASSUMPTIONS = ['Intel HEX reader bbv/refmodel/ihex.py written from the format description', 'file identity = content + size + mtime_ns + inode']

FUNCS = ['read_lines', 'lex_tokens', 'parse_item', 'resolve_constants', 'resolve_labels', 'resolve_register_aliases', 'transform_compressible',
         'transform_pseudo_instructions', 'resolve_aligns', 'resolve_immediates', 'resolve_instructions', 'resolve_strings', 'resolve_sequences',
         'transform_shorthand_packs', 'resolve_packs', 'resolve_include_bytes', 'resolve_blobs']
NATURAL = {
    'missing_include': 'include nosuch.asm', 'error_directive': 'error stop', 'undefined_constant': 'K9 = NOCONST + 1',
    'compress_predicate': 'add x1, x1, foo', 'undefined_li': 'li x5, NOLABEL', 'undefined_label': 'j NOLABEL', 'range': 'addi x1, x1, 5000',
    'sequence_misfit': 'shorts 70000', 'pack_misfit': 'pack <h 40000', 'include_bytes_dir': 'include_bytes adir', 'parse': 'frobnicate x1',
}
LAUNCHER = os.path.join(core.VERIF_DIR, 'tools', 'launch', 'cli_launcher.py')


def stat_of(path):
    if not os.path.lexists(path):
        return None
    st = os.stat(path)
    with open(path, 'rb') as f:
        return (st.st_size, st.st_mtime_ns, st.st_ino, f.read())


def success_case(asm, acc, case):
    rng = random.Random('c17-s-%d-%d' % (case['seed'], case['idx']))
    root = tempfile.mkdtemp(prefix='bbv-c17-')
    try:
        items = randprog.gen(rng, dict(n=(3, 30), big_gap=0.0))
        if case['idx'] % 7 == 6 and not case['big']:
            # a source that assembles to zero bytes (definitions and labels only): still a successful run with (empty) outputs
            items = [{'k': 'const', 'name': 'ONLY_K', 'value': 5, 'text': '5'}, {'k': 'label', 'name': 'ONLY_L'}, {'k': 'label', 'name': 'END_L'}]
            acc['ctr']['zero_byte_programs'] += 1
        if case['big']:
            items.append({'k': 'gap', 'n': rng.choice([65536, 70000, 131072 + 6])})
            items.append({'k': 'label', 'name': 'AFTERBIG'})
            items.append({'k': 'seq', 'd': 'ints', 'vals': [0x12345678]})
        lines = P.render(items)
        incs = []
        for k in range(case['ninc']):
            d = os.path.join(root, 'inc%d' % k)
            os.makedirs(d)
            open(os.path.join(d, 'lib%d.asm' % k), 'w').write('LIBK%d = %d\n' % (k, 40 + k))
            lines = ['include lib%d.asm' % k] + lines + ['db LIBK%d' % k, 'align 2']
            incs.append(d)
        if case['ninc'] == 2 and case['idx'] % 2:
            # both -i directories hold `shared.asm` with other contents; directory names are not in alphabetical order
            d2 = os.path.join(root, 'aaa_second')
            os.makedirs(d2)
            os.rename(incs[1], os.path.join(root, 'zzz_first'))
            incs = [os.path.join(root, 'zzz_first'), incs[0], d2]
            open(os.path.join(incs[0], 'shared.asm'), 'w').write('SHARED_ID = 17\n')
            open(os.path.join(d2, 'shared.asm'), 'w').write('SHARED_ID = 34\nnop\n')
            lines = ['include shared.asm'] + lines + ['db SHARED_ID', 'align 2']
        if case['defs']:
            lines = ['include GD32VF103.asm'] + lines
            if incs and case['idx'] % 2 == 0:
                # the project's own copy of that file in a directory given with -i (C14: that is where an include file is found)
                open(os.path.join(incs[0], 'GD32VF103.asm'), 'w').write('# board specific copy\nRCU_BASE_ADDR = 0x50021000\n')
                lines = lines + ['dw RCU_BASE_ADDR']
                acc['ctr']['own_copy_of_a_bundled_definitions_file'] += 1
        srcdir = os.path.join(root, 'src')
        os.makedirs(srcdir)
        spanning = case['idx'] % 2 == 0 and not case['defs']
        if spanning:
            # a project spread over two directories: the file in src/lib names its own neighbour `common.asm`, not the one beside main.asm
            os.makedirs(os.path.join(srcdir, 'lib'))
            open(os.path.join(srcdir, 'common.asm'), 'w').write('COMMON_ID = 11\n')
            open(os.path.join(srcdir, 'lib', 'common.asm'), 'w').write('COMMON_ID = 22\n')
            open(os.path.join(srcdir, 'lib', 'part.asm'), 'w').write('include common.asm\ndb COMMON_ID\nalign 2\n')
            lines = ['include lib/part.asm'] + lines
        main = os.path.join(srcdir, 'main.asm')
        open(main, 'w').write('\n'.join(lines) + '\n')
        if case['idx'] % 5 == 3:
            # the input is named through a symbolic link (a shared main file linked into a board directory): whatever that means for
            # the files it includes, the command line and assemble() are given the same name and owe the same program
            os.makedirs(os.path.join(root, 'shared'))
            os.rename(main, os.path.join(root, 'shared', 'main_real.asm'))
            os.symlink(os.path.join(root, 'shared', 'main_real.asm'), main)
            acc['ctr']['inputs_named_through_a_symlink'] += 1
        compress = case['compress']
        # reference: the API on the same file (C14 checks API vs flattened text)
        inc_api = list(incs) + ([os.path.join(core.repo_dir(), 'bronzebeard', 'definitions')] if case['defs'] else [])
        ref = monitors.observe(asm, main, compress, include_dirs=inc_api, tap=True)
        acc['n'] += 1
        if not ref.ok:
            acc['ctr']['reference_refused'] += 1
            return
        cwd = os.path.join(root, 'work')
        os.makedirs(cwd)
        args = [main]
        if compress:
            args.append('-c')
        for d in incs:
            args += ['-i', d]
        outp = os.path.join(cwd, 'bb.out')
        if case['explicit_o']:
            outp = os.path.join(root, 'out', 'prog.bin')
            os.makedirs(os.path.dirname(outp))
            args += ['-o', outp]
        labp = None
        if case['explicit_o'] and case['idx'] % 3 == 2:
            # the outputs of one run share directory and stem (prog.bin / prog.lbl), or the binary has no extension at all
            outp = os.path.join(root, 'out', ['prog.bin', 'firmware', 'a.b.bin'][case['idx'] % 9 // 3])
            args[-1] = outp
        if case['labels']:
            labp = os.path.join(root, 'labels.txt')
            if case['explicit_o'] and case['idx'] % 3 == 2:
                labp = os.path.splitext(outp)[0] + '.lbl'
            args += ['-l', labp]
        if case['hex'] is not None:
            args += ['--hex-offset', case['hex']]
        if case['defs']:
            args.append('--include-definitions')
        if case['idx'] % 3 == 1:
            args.insert(1, rng.choice(['-v', '--verbose']))
        # stale files that must be replaced: junk, or - for the binary - an older build that starts with / equals / is a prefix of
        # the new program (an "unchanged, skip the write" shortcut must still leave exactly the new program)
        stale_kind = ['junk', 'longer', 'same', 'shorter', 'junk-long'][case['idx'] % 5]
        for p in (outp, labp, outp + '.hex'):
            if p:
                open(p, 'wb').write(b'STALE')
        if stale_kind == 'longer':
            open(outp, 'wb').write(ref.out + b'\x13\x00\x00\x00TAIL')
        elif stale_kind == 'same':
            open(outp, 'wb').write(ref.out)
        elif stale_kind == 'shorter':
            open(outp, 'wb').write(ref.out[:max(0, len(ref.out) - 3)])
        elif stale_kind == 'junk-long':
            open(outp, 'wb').write(b'\xa5' * (len(ref.out) + 64))
        core.see(acc, 'stale_output_kinds', stale_kind)
        feeder = None
        if case['idx'] % 11 == 4 and not os.path.islink(main):
            # the source arrives through a pipe (`cpp prog.S | bronzebeard /dev/stdin`, a shell's <(...)): a named pipe beside main.asm,
            # served once with the program text; whoever opens it again finds it empty
            import threading
            fifo = os.path.join(srcdir, 'main_piped.asm')
            os.mkfifo(fifo)
            stop = threading.Event()
            text = open(main, 'rb').read()

            def feed():
                first = True
                while not stop.is_set():
                    try:
                        fd = os.open(fifo, os.O_WRONLY | os.O_NONBLOCK)
                    except OSError:
                        time.sleep(0.005)          # nobody has it open for reading (yet)
                        continue
                    try:
                        if first:
                            os.set_blocking(fd, True)
                            os.write(fd, text) if len(text) < 60000 else [os.write(fd, text[i:i + 60000]) for i in range(0, len(text), 60000)]
                            first = False
                    except OSError:
                        pass
                    finally:
                        os.close(fd)
                    time.sleep(0.02)
            feeder = threading.Thread(target=feed, daemon=True)
            feeder.start()
            args[0] = fifo
            acc['ctr']['inputs_read_from_a_pipe'] += 1
        try:
            r = cli.run_cli(args, cwd)
        finally:
            if feeder is not None:
                stop.set()
                feeder.join(timeout=5)
        acc['ctr']['success_runs'] += 1
        acc['ntkeys'].add(core.ckey('s', tuple(sorted((k, str(v)) for k, v in case.items()))))
        core.see(acc, 'option_cells', 'c%d i%d o%d l%d hex%s defs%d big%d' % (compress, case['ninc'], case['explicit_o'], case['labels'], case['hex'], case['defs'], case['big']))
        opts = ' '.join(a.replace(root, '<d>') for a in args[1:])
        if r.returncode != 0:
            core.add_viol(acc, 'CLI run [%s] fails (exit %d: %s) although the API assembles the program' % (opts, r.returncode, r.stderr.strip()[-160:]), case, {})
            return
        got = open(outp, 'rb').read() if os.path.exists(outp) else None
        if got != ref.out:
            core.add_viol(acc, 'CLI run [%s]: -o file holds %s bytes, the assembled program has %d' % (opts, len(got) if got is not None else 'no', len(ref.out)), case, {})
        elif spanning:
            acc['ctr']['two_directory_projects'] += 1
            if got[:2] != b'\x16\x00':
                core.add_viol(acc, 'CLI run [%s]: the -o file starts with %s; src/lib/part.asm includes its neighbour common.asm (COMMON_ID = 22) and emits `db COMMON_ID`, `align 2` first' % (
                    opts, got[:2].hex()), case, {})
        if labp:
            text = open(labp).read()
            want = ''.join('%s 0x%08x\n' % (k, v) for k, v in ref.labels.items())
            if sorted(text.splitlines()) != sorted(want.splitlines()):
                core.add_viol(acc, 'CLI run [%s]: -l file %r differs from the label table %r' % (opts, text[:200], want[:200]), case, {})
            # and the label values themselves are the blob-stream offsets (when the stream could be attributed)
        if case['hex'] is not None:
            hp = outp + '.hex'
            if not os.path.exists(hp):
                core.add_viol(acc, 'CLI run [%s]: no Intel HEX file was written' % opts, case, {})
            else:
                try:
                    mem = ihex.parse(open(hp).read())
                except ValueError as e:
                    core.add_viol(acc, 'CLI run [%s]: the Intel HEX file is malformed: %s' % (opts, e), case, {})
                    mem = None
                if mem is not None:
                    off = int(case['hex'], 0)
                    want = {off + i: b for i, b in enumerate(ref.out)}
                    if mem != want:
                        bad = next((a for a in sorted(set(mem) | set(want)) if mem.get(a) != want.get(a)), None)
                        core.add_viol(acc, 'CLI run [%s]: the Intel HEX file decodes to other bytes / addresses (first difference at %#x: %r vs %r; %d vs %d bytes)' % (
                            opts, bad, mem.get(bad), want.get(bad), len(mem), len(want)), case, {})
                    acc['ctr']['hex_files_decoded'] += 1
        if case['idx'] % 23 == 0:
            core.add_sample(acc, {'cli_args': opts, 'exit': r.returncode, 'out_bytes': len(ref.out), 'labels': len(ref.labels)})
    finally:
        shutil.rmtree(root, ignore_errors=True)


def failure_case(asm, acc, case):
    root = tempfile.mkdtemp(prefix='bbv-c17-')
    try:
        rng = random.Random('c17-f-%r' % (sorted(case.items()),))
        base = ['START:', 'K1 = 7', 'addi x8, x8, K1', 'li x5, 0x12345', 'bytes 1 2', 'dw START', 'ret']
        lines = list(base)
        os.makedirs(os.path.join(root, 'adir'))
        fault = case['fault']
        launcher = None
        env = {}
        args_extra = []
        src = os.path.join(root, 'main.asm')
        if fault in NATURAL:
            pos = rng.randrange(len(lines) + 1)
            lines.insert(pos, NATURAL[fault])
        elif fault.startswith('inject:'):
            launcher = LAUNCHER
            env = {'BBV_FAIL_FUNC': fault.split(':')[1], 'BBV_FAIL_KIND': case['kind2']}
            lines += ['include_bytes blob.bin', 'string x', 'pack <I 5', 'align 4']
            open(os.path.join(root, 'blob.bin'), 'wb').write(b'\x01\x02')
        elif fault == 'bad_hex_offset':
            args_extra = ['--hex-offset', rng.choice(['zzz', '0xZZ', '12abc', '0x', '-4', '-0x10', '-1', ''])]     # no text, and no address below zero
        elif fault == 'hex_past_4g':
            # a well-formed, non-negative offset at which the image does not fit below 2^32: the run cannot write the hex file
            args_extra = ['--hex-offset', rng.choice(['0xfffffffc', '0xffffffff', '4294967292', '0x100000000', '0xFFFFFFFE'])]
        elif fault == 'missing_input':
            src = os.path.join(root, 'nosuch.asm')
        elif fault == 'bad_include_dir':
            args_extra = ['-i', os.path.join(root, 'nosuchdir')]
        o_arg = l_arg = None
        if fault == 'out_missing_dir':
            o_arg = os.path.join(root, 'nodir', 'out.bin')
        elif fault == 'out_is_dir':
            o_arg = os.path.join(root, 'adir')
        elif fault == 'labels_missing_dir':
            l_arg = os.path.join(root, 'nodir', 'labels.txt')
        if fault != 'missing_input':
            open(src, 'w').write('\n'.join(lines) + '\n')
        outp = os.path.join(root, 'out.bin')
        labp = os.path.join(root, 'labels.txt')
        hexp = outp + '.hex'
        present = case['present']
        if present:
            open(outp, 'wb').write(b'OLD BINARY \x00\x01')
            open(labp, 'w').write('OLD 0x00000000\n')
            open(hexp, 'w').write(':00000001FF\n')
            old = time.time() + (1000 if case.get('older_files_newer_than_source') else -1000)
            for p in (outp, labp, hexp):
                os.utime(p, (old, old))
        if fault == 'hex_is_dir':
            if os.path.exists(hexp):
                os.unlink(hexp)
            os.makedirs(hexp)          # the Intel HEX file cannot be written
        if fault == 'hex_staging_blocked':
            # only the hex file cannot be produced: something (a directory left behind by an interrupted run) sits where the tool
            # stages it - whatever the staging name is, the usual suspects are all taken
            for suffix in ('.part', '.tmp', '.new', '~'):
                os.makedirs(hexp + suffix, exist_ok=True)
        tracked = [p for p in (outp, labp, hexp) if not os.path.isdir(p)]
        before = {p: stat_of(p) for p in tracked}
        args = [src, '-o', o_arg or outp, '-l', l_arg or labp] + (['-c'] if case['compress'] else [])
        if fault not in ('bad_hex_offset', 'hex_past_4g') and case.get('hex', True):
            args += ['--hex-offset', '0x08000000']
        args += args_extra
        r = cli.run_cli(args, root, extra_env=env, launcher=launcher)
        acc['n'] += 1
        acc['ctr']['failure_runs'] += 1
        acc['ntkeys'].add(core.ckey('f', tuple(sorted((k, str(v)) for k, v in case.items()))))
        core.see(acc, 'faults', fault + ('/' + case['kind2'] if fault.startswith('inject:') else ''))
        if not case.get('hex', True):
            acc['ctr']['failure_runs_without_hex_offset_next_to_an_older_hex_file'] += 1
        if launcher and 'BBV-NOFUNC' in r.stderr:
            acc['ctr']['injected_function_missing'] += 1       # the tree has no function of that name (renamed / removed pass)
            core.see(acc, 'functions_not_called', fault)
            return
        if launcher and 'BBV-INJECTED' not in r.stderr:
            acc['ctr']['injection_not_reached'] += 1
            return
        desc = 'failing CLI run (%s%s, compress=%s, older output files %s%s)' % (fault, '/' + case['kind2'] if launcher else '', case['compress'], 'present' if present else 'absent',
                                                                                '' if case.get('hex', True) else ', no --hex-offset')
        if r.returncode == 0 and fault == 'hex_staging_blocked':
            # a tool that stages its hex file somewhere else is not hindered at all: then this is a successful run and owes a hex file
            ok = False
            if os.path.isfile(hexp):
                try:
                    ok = len(ihex.parse(open(hexp).read())) > 0
                except (ValueError, OSError):
                    ok = False
            if ok:
                acc['ctr']['fault_did_not_bite'] += 1
            else:
                core.add_viol(acc, '%s exits with status 0 but left no readable Intel HEX file' % desc, case, {'stderr': r.stderr[-300:]})
            return
        if r.returncode == 0:
            if launcher:
                # the rebound function was never called by this tree's assemble(): not a failure at all (e.g. a pass was removed)
                acc['ctr']['injected_function_not_called'] += 1
                core.see(acc, 'functions_not_called', fault)
                return
            core.add_viol(acc, '%s exits with status 0' % desc, case, {'stderr': r.stderr[-300:]})
            return
        after = {p: stat_of(p) for p in tracked}
        for p in tracked:
            if after[p] != before[p]:
                what = 'created' if before[p] is None else ('removed' if after[p] is None else 'modified (%r -> %r)' % (before[p][3][:16], after[p][3][:16]))
                core.add_viol(acc, '%s: %s was %s although the run failed (exit %d)' % (desc, os.path.basename(p), what, r.returncode), case,
                              {'stderr': r.stderr[-300:]})
        if case.get('sample'):
            core.add_sample(acc, {'failing_run': fault, 'exit': r.returncode, 'stderr_tail': r.stderr.strip()[-120:], 'files_untouched': after == before})
    finally:
        shutil.rmtree(root, ignore_errors=True)


def run_shard(sh, deadline):
    asm = core.load_asm()
    acc = core.new_acc()
    for i, case in enumerate(sh['cases']):
        if case['what'] == 'success':
            success_case(asm, acc, case)
        else:
            failure_case(asm, acc, dict(case, sample=(i == 0)))
        if time.time() > deadline:
            acc['truncated'] += 1
            break
    return acc


def plan(tier, seed):
    rng = random.Random('c17-plan-%d' % seed)
    cases = []
    hexes = [None, '0', '0x08000000', '0x20000000', '134217728']
    n = 120 if tier == 'quick' else 12000
    for i in range(n):
        cases.append({'what': 'success', 'seed': seed, 'idx': i, 'compress': bool(i & 1), 'ninc': i % 3, 'explicit_o': (i // 2) % 2 == 0, 'labels': (i // 3) % 2 == 0,
                      'hex': hexes[i % len(hexes)], 'defs': i % 7 == 0, 'big': i % 4 == 1})
    reps = 1 if tier == 'quick' else 24
    for rep in range(reps):
        for fault in list(NATURAL) + ['bad_hex_offset', 'hex_past_4g', 'hex_staging_blocked', 'missing_input', 'bad_include_dir', 'out_missing_dir', 'out_is_dir', 'labels_missing_dir', 'hex_is_dir']:
            for compress in (False, True):
                for present in (True, False):
                    cases.append({'what': 'failure', 'fault': fault, 'compress': compress, 'present': present, 'kind2': '', 'rep': rep})
        for f in FUNCS:
            for kind2 in ('asm', 'runtime'):
                for compress in ([True] if f == 'transform_compressible' else [False, True]):
                    cases.append({'what': 'failure', 'fault': 'inject:' + f, 'compress': compress, 'present': True, 'kind2': kind2, 'rep': rep})
        # the same failures in runs that ask for no hex file at all: an older <out>.hex (older or newer than the source) is still somebody's file
        for j, fault in enumerate(list(NATURAL) + ['inject:' + f for f in FUNCS] + ['missing_input', 'bad_include_dir', 'out_is_dir', 'labels_missing_dir']):
            for newer in (False, True):
                cases.append({'what': 'failure', 'fault': fault, 'compress': bool((j + rep + newer) & 1) or fault == 'inject:transform_compressible', 'present': True,
                              'kind2': ('asm', 'runtime')[(j + rep) & 1] if fault.startswith('inject:') else '', 'rep': rep, 'hex': False, 'older_files_newer_than_source': newer})
    rng.shuffle(cases)
    nsh = 48 if tier == 'quick' else 1024
    shards = [{'cases': cases[i::nsh]} for i in range(nsh)]
    return {'shards': shards, 'budget_s': 400 if tier == 'quick' else 3000, 'extra_cov': {'cli_runs_planned': len(cases)}, 'exhaustive': True}


def gates(acc, tier):
    g = []
    if acc['ctr']['success_runs'] < 20:
        g.append('only %d successful CLI runs' % acc['ctr']['success_runs'])
    if acc['ctr']['hex_files_decoded'] == 0 and not acc['nviol']:
        g.append('no Intel HEX file was decoded')
    seen = acc['seen'].get('faults', set())
    need = set(NATURAL) | {'bad_hex_offset', 'missing_input', 'bad_include_dir', 'out_missing_dir', 'out_is_dir', 'labels_missing_dir', 'hex_is_dir'} | {'inject:%s/%s' % (f, k) for f in FUNCS for k in ('asm', 'runtime')}
    if need - seen:
        g.append('failure points never exercised: %s' % sorted(need - seen)[:5])
    if acc['ctr']['injection_not_reached']:
        g.append('%d injected runs never reached the launcher hook' % acc['ctr']['injection_not_reached'])
    if len(acc['seen'].get('functions_not_called', ())) > 4:
        g.append('injected functions that assemble() never called: %s' % sorted(acc['seen'].get('functions_not_called', ())))
    return g


def replay(case):
    asm = core.load_asm()
    acc = core.new_acc()
    if case['what'] == 'success':
        success_case(asm, acc, case)
    else:
        failure_case(asm, acc, {k: v for k, v in case.items() if k != 'sample'})
    return acc
