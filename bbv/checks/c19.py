"""C19 - DFU refuses oversize firmware untouched; a failed flash is never "done".  DESIGN.md section 4 / C19.

Fault enumeration against the simulated DfuSe device: oversize images, and every single / double injection of a
device error status at the erase / set-address / write steps.
"""
import itertools
import random
import time

from .. import core, dfusim

ID = 'C19'
LEVEL = 'fault_enumeration'
RULE = ('oversize: flash size + {1,2,1023,1024,1025,size} on the four GD32 variants (no DNLOAD may reach the device, exit status non-zero); '
        'error injection: every single and every pair of operation indices (erase i / set-address i / write i) for images of 1-6 pages '
        '(quick: 1-4), single injections at first/middle/last operation for 16-128 page images, x status codes errTARGET..errSTALLEDPKT x '
        'device behaviour {stalls every DNLOAD while in dfuERROR (per DFU 1.1) | keeps answering}.  One case = one run of the tool with '
        'one fault plan.  Non-trivial = the device actually delivered an error status for an erase or write step to the host in a '
        'GETSTATUS reply (or refused nothing because the image was oversize); distinct by fault plan.')
ASSUMPTIONS = ['"names the failure" is judged leniently: the output must contain the DFU status description, or the word error/fail',
               'device model per DFU 1.1 + DfuSe (bbv/dfusim.py)']

STATUS = list(range(1, 16))
VENDOR = [16, 0x2a, 0x80, 0xfe, 0xff]          # outside the DFU 1.1 table: still 'not OK'
DESCR = {
    1: 'File is not targeted for use by this device.', 2: 'File is for this device but fails some vendor-specific verification test.',
    3: 'Device is unable to write memory.', 4: 'Memory erase function failed.', 5: 'Memory erase check failed.',
    6: 'Program memory function failed.', 7: 'Programmed memory failed verification.',
    8: 'Cannot program memory due to received address that is out of range.', 9: 'Received DFU_DNLOAD with wLength = 0',
    10: 'firmware is corrupt', 11: 'iString indicates a vendor-specific error.', 12: 'Device detected unexpected USB reset signaling.',
    13: 'Device detected unexpected power on reset.', 14: 'Something went wrong, but the device does not know what it was.',
    15: 'Device stalled an unexpected request.',
}


def run_case(acc, case):
    acc['n'] += 1
    variant = case['variant']
    pages = dfusim.VARIANTS[variant]
    if case['kind'] == 'oversize':
        length = pages * 1024 + case['extra']
        fw = bytes([0x5a]) * length
        # the part that does not fit may look like padding (erased-flash 0xff, zero fill): the file is still too large
        content = ['code', 'ff-tail', 'zero-tail', 'all-ff', 'second-image-of-ff'][(case['extra'] + len(variant) + ord(variant[0])) % 5]
        if content == 'ff-tail':
            fw = fw[:pages * 1024 - 10] + b'\xff' * (length - pages * 1024 + 10)
        elif content == 'zero-tail':
            fw = fw[:pages * 1024 - 10] + bytes(length - pages * 1024 + 10)
        elif content == 'all-ff':
            fw = b'\xff' * length
        elif content == 'second-image-of-ff':
            fw = fw[:pages * 1024] + b'\xff' * (length - pages * 1024)
        core.see(acc, 'oversize_content', content)
        # the same source as `python -O` runs it (assert statements removed) as well: a refusal must not hang on an assert
        for optimize in (False, True):
            dev = dfusim.Device(variant, pattern_seed=3)
            dev_id = ['28e9:0189', '28E9:0189', '0x28e9:0x0189', '28e9:189'][(case['extra'] + len(variant) + optimize) % 4]      # spellings of one id
            core.see(acc, 'device_id_spellings', dev_id)
            r = dfusim.run(fw, dev, device_id=dev_id, via_fifo=case.get('fifo', False), optimize=optimize)
            acc['ntkeys'].add(core.ckey('over', variant, case['extra'], case.get('fifo'), optimize))
            acc['ctr']['oversize_runs'] += 1
            acc['ctr']['oversize_runs_without_asserts'] += optimize
            acc['n'] += optimize
            mode = ' (python -O)' if optimize else ''
            if dev.dnloads or bytes(dev.flash) != dev.initial:
                core.add_viol(acc, 'firmware of %d bytes for a %d-byte flash%s: %d DNLOAD requests were sent (first %r)' % (
                    length, pages * 1024, mode, dev.dnloads, next((e for e in dev.log if e[1] == 'DNLOAD'), None)), case, {})
            if r.code == 0 or r.done_printed or r.stuck:
                core.add_viol(acc, 'oversize firmware (%d bytes > %d)%s: exit status %r, done printed: %s' % (length, pages * 1024, mode, r.code, r.done_printed), case,
                              {'stdout_tail': r.stdout[-200:]})
        return
    npages = case['npages']
    length = npages * 1024 - case.get('short', 0)
    rng = random.Random('c19-%r' % (sorted(case.items()),))
    fw = bytes(rng.randrange(256) for _ in range(min(length, 2048)))
    fw = (fw * (length // max(1, len(fw)) + 1))[:length]
    errors = {int(k): s for k, s in case['inject']}
    dev = dfusim.Device(variant, pattern_seed=5, errors=errors, stall_in_error=case['stall'], error_state={True: dfusim.DNLOAD_IDLE, 'idle': dfusim.IDLE, 'busy': dfusim.DNBUSY}[case['idle_state']] if case.get('idle_state') else dfusim.ERROR,
                        default_busy=[rng.choice([0, 1, 50])] * rng.choice([0, 1, 2]))
    if rng.random() < 0.25:
        # the failing operation keeps the device busy for a long time before it reports its error
        k_slow = int(case['inject'][0][0])
        dev.busy[k_slow] = [rng.choice([0, 1])] * rng.choice([99, 100, 101, 150, 400, 1200])
        acc['ctr']['fault_runs_with_a_long_busy_phase'] += 1
    optimize = rng.random() < 0.3
    acc['ctr']['fault_runs_without_asserts'] += optimize
    tty = rng.random() < 0.35
    acc['ctr']['fault_runs_on_a_terminal'] += tty
    r = dfusim.run(fw, dev, optimize=optimize, tty=tty)
    # operation index -> step name for the message: npages erases, then (set-address, write) per page
    def step(k):  # noqa
        if k < npages:
            return 'erase page %d' % k
        j = k - npages
        return ('set address for page %d' if j % 2 == 0 else 'write page %d') % (j // 2)
    acc['ctr']['fault_runs'] += 1
    core.see(acc, 'status_codes', case['inject'][0][1])
    core.see(acc, 'device_behaviour', 'stalls' if case['stall'] else 'keeps answering')
    core.see(acc, 'state_reported_with_the_error', {None: 'dfuERROR', False: 'dfuERROR', True: 'dfuDNLOAD-IDLE', 'idle': 'dfuIDLE', 'busy': 'dfuDNBUSY, then all-clear'}[case.get('idle_state')])
    if not dev.error_reports:
        if dev.state in (dfusim.DNLOAD_SYNC, dfusim.DNBUSY) and dev.nops in errors and (r.done_printed or r.code == 0):
            # the tool started the operation that was going to fail, stopped asking before the device had answered, and reported success
            core.add_viol(acc, 'the tool announced success (exit %r, done printed: %s) while the device was still busy with %s of a %d-page image, '
                          'which was about to fail with status %d: the outcome of the operation was never read' % (
                              r.code, r.done_printed, step(dev.nops), npages, errors[dev.nops]), case, {'stdout_tail': r.stdout[-200:]})
            return
        acc['ctr']['fault_not_reached'] += 1      # e.g. second fault after the tool already stopped
        return
    acc['ntkeys'].add(core.ckey(variant, npages, tuple(map(tuple, case['inject'])), case['stall'], case.get('idle_state')))
    k0, st0 = dev.error_reports[0]
    core.see(acc, 'failed_step_kinds', step(k0).split(' page')[0])
    acc['ctr']['error_statuses_delivered'] += len(dev.error_reports)
    out = r.stdout
    low = out.lower()
    named = any(DESCR[s].lower()[:30] in low for _k, s in dev.error_reports if s in DESCR) or 'error' in low or 'fail' in low
    problems = []
    if r.stuck:
        problems.append('never ends (%s)' % r.stuck[:120])
    if r.done_printed:
        problems.append('announces success ("done!")')
    if r.code == 0:
        problems.append('exit status 0')
    if not named:
        problems.append('output does not name the failure')
    if problems:
        core.add_viol(acc, 'device reported status %d (%s) for %s of a %d-page image (%s device): the tool %s' % (
            st0, DESCR.get(st0, 'code outside the DFU 1.1 table')[:40], step(k0), npages, 'stalling' if case['stall'] else 'lenient', ' and '.join(problems)), case,
            {'stdout_tail': out[-300:], 'exit': r.code}, key=None)
    if case.get('sample'):
        core.add_sample(acc, {'fault_plan': case['inject'], 'pages': npages, 'device': 'stalls' if case['stall'] else 'keeps answering',
                              'failed_step': step(k0), 'exit': r.code, 'stdout_tail': out[-120:]})


def run_shard(sh, deadline):
    acc = core.new_acc()
    dfusim.load_dfu()
    for i, case in enumerate(sh['cases']):
        if i in (0, 5):
            case = dict(case, sample=True)
        run_case(acc, case)
        if time.time() > deadline:
            acc['truncated'] += 1
            break
    return acc


def plan(tier, seed):
    cases = []
    for v, pages in dfusim.VARIANTS.items():
        for extra in (1, 2, 1023, 1024, 1025, pages * 1024):
            cases.append({'kind': 'oversize', 'variant': v, 'extra': extra})
        for extra in (1, 1025):
            cases.append({'kind': 'oversize', 'variant': v, 'extra': extra, 'fifo': True})     # not a regular file: no size to stat
    rng = random.Random('c19-plan-%d' % seed)
    maxp = 4 if tier == 'quick' else 12
    codes_small = STATUS if tier == 'thorough' else None
    for npages in range(1, maxp + 1):
        nops = 3 * npages
        for k in range(nops):
            for stall in (True, False):
                for s in (codes_small or [STATUS[(k + npages + seed) % 15], STATUS[(k * 7 + 3) % 15]]):
                    cases.append({'kind': 'fault', 'variant': '4', 'npages': npages, 'inject': [[k, s]], 'stall': stall,
                                  'short': rng.choice([0, 0, 1, 500])})
        for a, b in itertools.combinations(range(nops), 2):
            for stall in (True, False):
                s1, s2 = STATUS[(a + b + seed) % 15], STATUS[(a * 3 + b) % 15]
                cases.append({'kind': 'fault', 'variant': '4', 'npages': npages, 'inject': [[a, s1], [b, s2]], 'stall': stall, 'short': 0})
    for v, pages in dfusim.VARIANTS.items():
        for npages in sorted({pages, pages // 2 + 1, 16}):
            if npages > pages:
                continue
            nops = 3 * npages
            for k in (sorted({0, npages - 1, npages, nops // 2, nops - 2, nops - 1}) if tier == 'quick' else range(nops)):     # thorough: every step of a full image
                for stall in (True, False):
                    for s in ([4, 6, 7, 8] if tier == 'quick' else STATUS):
                        cases.append({'kind': 'fault', 'variant': v, 'npages': npages, 'inject': [[k, s]], 'stall': stall, 'short': 3})
    for npages in (1, 2, 3):
        for k in range(3 * npages):
            for s in (3, 4, 6, 7):
                # a device that announces the error status but not the dfuERROR state
                cases.append({'kind': 'fault', 'variant': '4', 'npages': npages, 'inject': [[k, s]], 'stall': False, 'short': 0, 'idle_state': True})
                # ... or announces it together with dfuIDLE, or together with dfuDNBUSY and answers the next poll with an all-clear
                cases.append({'kind': 'fault', 'variant': '4', 'npages': npages, 'inject': [[k, s]], 'stall': False, 'short': 0, 'idle_state': 'idle'})
                cases.append({'kind': 'fault', 'variant': '4', 'npages': npages, 'inject': [[k, s]], 'stall': False, 'short': 0, 'idle_state': 'busy'})
    for npages in (1, 2, 3):
        for k in range(3 * npages):
            for s in VENDOR:
                for stall in (True, False):
                    cases.append({'kind': 'fault', 'variant': '4', 'npages': npages, 'inject': [[k, s]], 'stall': stall, 'short': 0})
    nsh = 64 if tier == 'quick' else 1024
    cases.sort(key=lambda c: -c.get('npages', 0))
    shards = [{'cases': cases[i::nsh]} for i in range(nsh)]
    return {'shards': shards, 'budget_s': 300 if tier == 'quick' else 3000, 'extra_cov': {'fault_plans': len(cases)},
            'exhaustive': True}


def gates(acc, tier):
    g = []
    if acc['ctr']['oversize_runs'] < 24:
        g.append('oversize cases missing')
    if acc['ctr']['error_statuses_delivered'] == 0:
        g.append('no injected error status ever reached the host')
    if len(acc['seen'].get('status_codes', ())) < 20:
        g.append('only %d/20 error status codes injected' % len(acc['seen'].get('status_codes', ())))
    if len(acc['seen'].get('failed_step_kinds', ())) < 3 and not acc['nviol']:
        g.append('failed step kinds seen: %s (need erase, set address, write)' % sorted(acc['seen'].get('failed_step_kinds', ())))
    if len(acc['seen'].get('device_behaviour', ())) < 2:
        g.append('both device behaviours are needed')
    return g


def replay(case):
    acc = core.new_acc()
    dfusim.load_dfu()
    run_case(acc, {k: v for k, v in case.items() if k != 'sample'})
    return acc
