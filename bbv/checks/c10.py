"""C10 - data directives emit the documented bytes; misfits are refused.  DESIGN.md section 4 / C10."""
import os
import random
import shutil
import struct
import tempfile
import time

from .. import core, monitors, cli
from ..refmodel import escapes

ID = 'C10'
LEVEL = 'exploration'
RULE = ('numeric: bytes/shorts/ints/longs/longlongs, db/dh/dw/dd and pack {<,>}x{bBhHiIlLqQ} x values in windows around -2^(w-1), -1/0, '
        '2^(w-1), 2^w and far beyond, in decimal/hex/binary, alone and inside multi-value sequences; strings: printable ASCII, the '
        'documented escapes, comment / quote / # characters, leading and trailing spaces, non-ASCII text (Latin-1, BMP, astral); '
        'include_bytes: files next to the source or in an include directory, with the process working directory = source dir / '
        'elsewhere / a directory holding a decoy file of the same name (same and different size), through the API (absolute and '
        'relative path) and the CLI.  Non-trivial = a case whose value lies within 4 of a width boundary, a string with an escape or a '
        'non-ASCII character, or an include_bytes run from a working directory that is not the source directory; distinct by case key.')
ASSUMPTIONS = ['two\'s-complement little-endian integers and Python struct semantics are the documented encodings (docs/assembly_language.rst)',
               'escape processing is checked on the subset every escape processor agrees on (\\n \\t \\r \\\\ \\\' \\" \\0 \\xhh \\uXXXX)']

SEQ = {'bytes': 1, 'shorts': 2, 'ints': 4, 'longs': 4, 'longlongs': 8}
SH = {'db': 1, 'dh': 2, 'dw': 4, 'dd': 8}
PACK = {'b': (1, True), 'B': (1, False), 'h': (2, True), 'H': (2, False), 'i': (4, True), 'I': (4, False), 'l': (4, True), 'L': (4, False),
        'q': (8, True), 'Q': (8, False)}


def windows(w):
    bits = 8 * w
    pts = [-(1 << bits), -(1 << (bits - 1)), 0, 1 << (bits - 1), 1 << bits]
    vals = set()
    for p in pts:
        vals |= set(range(p - 4, p + 5))
    vals |= {-(1 << (bits + 3)), 1 << (bits + 3), -(1 << 70), 1 << 70, (1 << bits) * 3 + 1, 0x55 << (bits - 8) if bits > 8 else 0x55,
             (1 << (bits - 1)) - 100, -(1 << (bits - 1)) + 100, 12345 % (1 << bits)}
    return sorted(vals)


def spell(v, k):
    if k % 3 == 0:
        return str(v)
    return ('-' if v < 0 else '') + (hex(abs(v)) if k % 3 == 1 else bin(abs(v)))


def near_boundary(v, w):
    bits = 8 * w
    return any(abs(v - p) <= 4 for p in (-(1 << (bits - 1)), 0, 1 << (bits - 1), 1 << bits, -(1 << bits)))


def judge_numeric(asm, acc, line, pieces, case):
    """pieces: [(value, width, lo, hi, byteorder)] in order; all must fit for the line to be accepted"""
    acc['n'] += 1
    # a label behind the directive shows the size the layout passes *booked* for it, next to the bytes that were emitted
    o = monitors.observe(asm, line + '\nEND_:\n', tap=False)
    fits = all(lo <= v <= hi for v, w, lo, hi, bo in pieces)
    if any(near_boundary(v, w) for v, w, lo, hi, bo in pieces):
        acc['ntkeys'].add(core.ckey(line))
    if not fits:
        acc['ctr']['misfit_cases'] += 1
        if o.ok:
            core.add_viol(acc, '`%s`: a value does not fit its width but output %s was produced' % (line, o.out.hex()), case, {})
        return
    acc['ctr']['fitting_cases'] += 1
    if not o.ok:
        core.add_viol(acc, '`%s`: every value fits but the line is refused (%s: %s)' % (line, o.exc['type'], o.exc['msg']), case, {})
        return
    exp = b''.join((v % (1 << (8 * w))).to_bytes(w, bo) for v, w, lo, hi, bo in pieces)
    if o.out != exp:
        core.add_viol(acc, '`%s` emitted %s, documented encoding is %s' % (line, o.out.hex(), exp.hex()), case, {})
    elif o.labels is not None and o.labels.get('END_') != len(exp):
        core.add_viol(acc, '`%s` emitted its %d documented bytes, but the label behind it is reported at %r: the directive was laid out with another size' % (
            line, len(exp), o.labels.get('END_')), case, {})
    else:
        acc['ctr']['sizes_confirmed_by_a_label_behind'] += 1


def numeric_shard(asm, acc, sh, deadline):
    rng = random.Random('c10-num-%d' % sh['seed'])
    k = 0
    for name, w in list(SEQ.items()) + list(SH.items()):
        bits = 8 * w
        lo, hi = -(1 << (bits - 1)), (1 << bits) - 1
        core.see(acc, 'directives', name)
        for v in windows(w):
            k += 1
            line = '%s %s' % (name, spell(v, k))
            judge_numeric(asm, acc, line, [(v, w, lo, hi, 'little')], {'kind': 'num', 'line': line, 'pieces': [[v, w, lo, hi, 'little']]})
            if name in SEQ:
                # inside a multi-value sequence, mixed signs
                others = [rng.choice([0, 1, -1, hi, lo, rng.randrange(lo, hi + 1)]) for _ in range(rng.randint(1, 3))]
                vals = others[:1] + [v] + others[1:]
                line = '%s %s' % (name, rng.choice([' ', ', ']).join(spell(x, rng.randrange(3)) for x in vals))
                pieces = [[x, w, lo, hi, 'little'] for x in vals]
                judge_numeric(asm, acc, line, [tuple(p) for p in pieces], {'kind': 'num', 'line': line, 'pieces': pieces})
    for e in '<>!':          # (`!`, network order, is big-endian: "the given struct format and byte order")
        for f, (w, signed) in PACK.items():
            bits = 8 * w
            lo, hi = (-(1 << (bits - 1)), (1 << (bits - 1)) - 1) if signed else (0, (1 << bits) - 1)
            core.see(acc, 'directives', 'pack ' + e + f)
            for v in windows(w):
                k += 1
                line = 'pack %s%s%s %s' % (e, f, rng.choice([',', '', ' ,']), spell(v, k))
                bo = 'little' if e == '<' else 'big'
                judge_numeric(asm, acc, line, [(v, w, lo, hi, bo)], {'kind': 'num', 'line': line, 'pieces': [[v, w, lo, hi, bo]]})
    # random interior values, all directives
    for _ in range(sh['random']):
        name, w = rng.choice(list(SEQ.items()) + list(SH.items()))
        bits = 8 * w
        lo, hi = -(1 << (bits - 1)), (1 << bits) - 1
        v = rng.randrange(lo - (1 << (bits - 2)), hi + (1 << (bits - 2)))
        line = '%s %s' % (name, spell(v, rng.randrange(3)))
        judge_numeric(asm, acc, line, [(v, w, lo, hi, 'little')], {'kind': 'num', 'line': line, 'pieces': [[v, w, lo, hi, 'little']]})
    core.add_sample(acc, {'numeric_case': 'dh -32769', 'model': 'refused: below -2^15'})


ASCII_POOL = 'abcXYZ 0129_-+*/=<>!?.,;:()[]{}#"\'%&|^~@$`'
NONASCII = ['é', 'ü', 'ß', 'ñ', 'Ω', 'Ж', '中', '日本', '€', '→', '😀', '𝄞', 'ÿ', '¡', 'ǅ', 'ก',
            # characters that str.splitlines() treats as line ends but that are not: a line ends at LF, CR LF or CR
            'a\ufeffb', '\ufeff', 'x\u200b\u00a0y', 'a\x0cb', 'a\x0bb', 'a\x1cb', 'a\x1eb', 'a\x85b', 'a\u2028b', 'a\u2029b']
ESCAPES = ['\\n', '\\t', '\\r', '\\\\', "\\'", '\\"', '\\0', '\\x41', '\\x7f', '\\xe9', '\\u00e9', '\\u4e2d',
           '\\N{BULLET}', '\\N{UNKNOWN NAME}', '\\U0001F600', '\\U00110000', '\\N{latin small letter e with acute}', '\\N{}',
           '\\q', '\\%', '\\é', '\\€', '\\日', '\\😀', 'C:\\Windows\\€uro', '\\ ']


def gen_string(rng):
    parts = []
    flags = set()
    for _ in range(rng.randint(1, 8)):
        c = rng.random()
        if c < 0.55:
            parts.append(''.join(rng.choice(ASCII_POOL) for _ in range(rng.randint(1, 6))))
        elif c < 0.75:
            parts.append(rng.choice(ESCAPES))
            flags.add('escape')
        elif c < 0.93:
            parts.append(rng.choice(NONASCII))
            flags.add('nonascii')
        else:
            parts.append(rng.choice(['  ', ' # not a comment', ' string x', '\t']))
    text = ''.join(parts)
    if rng.random() < 0.2:
        text = '  ' + text
    if rng.random() < 0.2:
        text = text + '  '
    return text, flags


def judge_string(asm, acc, text, indent=''):
    acc['n'] += 1
    line = indent + 'string ' + text
    case = {'kind': 'str', 'text': text, 'indent': indent}
    segs = None
    try:
        exp = escapes.process(text).encode('utf-8')
    except ValueError:
        segs = escapes.segments(text)
        if segs is None:
            acc['ctr']['string_outside_model'] += 1
            return
    eol = ['\n', '\r\n', '\n', ''][len(text) % 4]
    o = monitors.observe(asm, 'bytes 1' + (eol or '\n') + line + eol, tap=False)
    if o.ok:
        o.out = o.out[1:]
    if '\\' in text or any(ord(ch) > 127 for ch in text):
        acc['ntkeys'].add(core.ckey(line))
    acc['ctr']['string_cases'] += 1
    if any(ord(ch) > 127 for ch in text):
        acc['ctr']['nonascii_strings'] += 1
    if segs is not None:
        # an escape-shaped sequence that names no character sits in the text: whatever becomes of *it* (or of the whole line), the
        # escapes around it are processed as always
        acc['ctr']['strings_with_an_unnamed_character_escape'] += 1
        if o.ok:
            enc = [sg.encode('utf-8') for sg in segs]
            pos, okay = 0, o.out.startswith(enc[0]) and o.out.endswith(enc[-1])
            for e in enc:
                k = o.out.find(e, pos)
                if k < 0:
                    okay = False
                    break
                pos = k + len(e)
            if not okay:
                core.add_viol(acc, 'string line %r emitted %s: the text pieces around the escape that names no character are %r after escape processing' % (
                    line, o.out.hex(), segs), case, {})
        return
    if not o.ok:
        core.add_viol(acc, 'string line %r is refused: %s: %s' % (line, o.exc['type'], o.exc['msg']), case, {})
    elif o.out != exp:
        core.add_viol(acc, 'string line %r emitted %s; UTF-8 of the escape-processed text is %s' % (line, o.out.hex(), exp.hex()), case, {},
                      key=None)


def locale_case(asm, acc):
    """a UTF-8 source file with non-ASCII text, assembled by a process whose locale is not UTF-8 (LC_ALL=C, UTF-8 mode off)"""
    import os, shutil, tempfile
    from .. import cli
    root = tempfile.mkdtemp(prefix='bbv-c10-')
    try:
        text = 'caf\u00e9 \u20ac \u4e2d'
        with open(os.path.join(root, 'main.asm'), 'w', encoding='utf-8') as f:
            f.write('string %s\nalign 2\n' % text)
        with open(os.path.join(root, 'inc.asm'), 'w', encoding='utf-8') as f:
            f.write('# d\u00e9finitions\nstring \u00df\n')
        with open(os.path.join(root, 'outer.asm'), 'w', encoding='utf-8') as f:
            f.write('include inc.asm\nalign 2\n')
        for name, want in (('main.asm', text.encode('utf-8')), ('outer.asm', '\u00df'.encode('utf-8'))):
            acc['n'] += 1
            r = cli.run_cli([name, '-o', name + '.bin'], root, extra_env={'LC_ALL': 'C', 'LANG': 'C', 'PYTHONUTF8': '0', 'PYTHONCOERCECLOCALE': '0'})
            acc['ctr']['runs_under_the_C_locale'] += 1
            acc['ntkeys'].add(core.ckey('locale', name))
            got = open(os.path.join(root, name + '.bin'), 'rb').read() if os.path.exists(os.path.join(root, name + '.bin')) else None
            if r.returncode != 0 or got is None or not got.startswith(want):
                core.add_viol(acc, 'command line under LC_ALL=C on a UTF-8 source (%s): exit %d, output %s; the text is %s (%s)' % (
                    name, r.returncode, got.hex() if got is not None else None, want.hex(), r.stderr.strip()[-120:]), {'kind': 'locale'}, {})
    finally:
        shutil.rmtree(root, ignore_errors=True)


def string_shard(asm, acc, sh, deadline):
    rng = random.Random('c10-str-%d-%d' % (sh['seed'], sh['idx']))
    for t in ['hello', '"world"', '"hello world"', 'hello  ##  world', 'hello\\nworld', '  hello\\\\nworld', 'é', 'x', ' ', '#', "it's", 'tab\\there']:
        judge_string(asm, acc, t)
    for ch in NONASCII:
        judge_string(asm, acc, ch)
    if sh['idx'] == 0:
        locale_case(asm, acc)
    for t in ['\\ud800', 'a\\udfffb', '\\ud83d\\ude00', 'x\\udc00']:
        # an escape for a surrogate code point names a character that has no UTF-8 form: nothing well-formed can be emitted
        acc['n'] += 1
        o = monitors.observe(asm, 'string ' + t + '\n', tap=False)
        acc['ctr']['surrogate_escape_cases'] += 1
        if o.ok:
            try:
                o.out.decode('utf-8')
                well = True
            except UnicodeDecodeError:
                well = False
            if not well:
                core.add_viol(acc, 'string line %r emitted %s, which is not UTF-8 of any text' % ('string ' + t, o.out.hex()), {'kind': 'surrogate', 'text': t}, {})
        else:
            acc['ntkeys'].add(core.ckey('surrogate', t))
        judge_string(asm, acc, 'a' + ch + 'b\\n')
    for k in range(sh['count']):
        text, flags = gen_string(rng)
        judge_string(asm, acc, text, indent=rng.choice(['', '', '  ', '\t']))
        if k == 0:
            core.add_sample(acc, {'string_line': 'string ' + text})
        if time.time() > deadline:
            acc['truncated'] += 1
            break


# ------------------------------------------------------------------------------------------------
# include_bytes

def judge_include_bytes(asm, acc, case):
    rng = random.Random('c10-inc-%r' % (sorted(case.items()),))
    root = tempfile.mkdtemp(prefix='bbv-c10-')
    old = os.getcwd()
    try:
        # (directories named the way people name them: blanks, parentheses, commas, a hash sign)
        odd = case['size'] % 3 == 2 or case['decoy'] == 'different'
        srcdir = os.path.join(root, 'My Proj (copy)' if odd else 'Proj', 'src,v2' if odd else 'src')
        incdir = os.path.join(root, 'My Proj (copy)' if odd else 'Proj', 'Assets #2' if odd else 'Assets')
        other = os.path.join(root, 'elsewhere')
        decoy = os.path.join(root, 'decoy')
        for d in (srcdir, incdir, other, decoy):
            os.makedirs(d)
        size = case['size']
        content = rng.randbytes(size)
        name = ['blob.bin', 'Blob.BIN', 'FONT_8x8.bin', 'data.Bin'][size % 4 if size < 4 else (size // 7) % 4]
        if name != name.lower():
            open(os.path.join(decoy, name.lower()), 'wb').write(b'lower-case twin')
        where = srcdir if case['loc'] == 'adjacent' else incdir
        open(os.path.join(where, name), 'wb').write(content)
        dsize = size if case['decoy'] == 'same' else size + 3
        open(os.path.join(decoy, name), 'wb').write(bytes((b ^ 0xff) for b in content[:dsize]) + b'\x11' * max(0, dsize - size))
        pre = bytes([1, 2, 3])
        main = os.path.join(srcdir, 'main.asm')
        open(main, 'w').write('bytes 1 2 3\ninclude_bytes %s\nbytes 0xee\n' % name)
        exp = pre + content + b'\xee'
        gone = os.path.join(root, 'gone')
        cwd = {'src': srcdir, 'elsewhere': other, 'decoy': decoy, 'root': '/', 'removed': gone}[case['cwd']]
        incs = [incdir] if case['loc'] == 'incdir' else ([] if rng.random() < 0.5 else [incdir])
        if case['cwd'] == 'removed':
            os.mkdir(gone)
            os.chdir(gone)
            os.rmdir(gone)            # the working directory no longer exists; every path the program needs is absolute
        else:
            os.chdir(cwd)
        acc['n'] += 1
        if case['cwd'] != 'src':
            acc['ntkeys'].add(core.ckey('inc', tuple(sorted(case.items()))))
        acc['ctr']['include_bytes_runs'] += 1
        core.see(acc, 'include_bytes_cells', '%s/%s/%s/%s' % (case['loc'], case['cwd'], case['decoy'], case['via']))
        if case['via'] == 'api':
            path = main
            o = monitors.observe(asm, path, include_dirs=incs, tap=False)
            got = o.out if o.ok else None
            err = None if o.ok else '%s: %s' % (o.exc['type'], o.exc['msg'])
        elif case['via'] == 'api-rel':
            path = os.path.relpath(main, cwd)
            o = monitors.observe(asm, path, include_dirs=incs, tap=False)
            got = o.out if o.ok else None
            err = None if o.ok else '%s: %s' % (o.exc['type'], o.exc['msg'])
        else:
            outp = os.path.join(root, 'out.bin')
            args = [os.path.relpath(main, cwd) if rng.random() < 0.5 else main, '-o', outp]
            for d in incs:
                args += ['-i', d]
            r = cli.run_cli(args, cwd)
            got = open(outp, 'rb').read() if r.returncode == 0 and os.path.exists(outp) else None
            err = None if got is not None else 'exit %d: %s' % (r.returncode, r.stderr.strip()[-200:])
        if got is not None and got == exp and case['via'] != 'cli':
            # the file is rewritten with other contents (same length, then another length) and assembled again in this
            # process: every assembly must embed what the file holds *now*
            for step, newsize in enumerate([size, size + 5, size]):
                content2 = bytes((b + 1 + step) & 0xff for b in content[:newsize]) + bytes([0x77]) * max(0, newsize - size)
                with open(os.path.join(where, name), 'wb') as f:
                    f.write(content2)
                o2 = monitors.observe(asm, path, include_dirs=incs, tap=False)
                acc['n'] += 1
                acc['ctr']['include_bytes_rewrites'] += 1
                if not o2.ok or o2.out != pre + content2 + b'\xee':
                    core.add_viol(acc, 'include_bytes %s assembled again after the file was rewritten (%d -> %d bytes, step %d): %s; the file now holds %s...' % (
                        name, size, newsize, step, ('emitted ' + o2.out[3:11].hex() + '...') if o2.ok else (o2.exc['type'] + ': ' + o2.exc['msg']), content2[:8].hex()), case, {})
                    break
        if got is None:
            core.add_viol(acc, 'include_bytes %s (file in %s dir, cwd=%s, decoy %s size, via %s) failed: %s' % (
                name, case['loc'], case['cwd'], case['decoy'], case['via'], err), case, {})
        elif got != exp:
            core.add_viol(acc, 'include_bytes %s (file in %s dir, cwd=%s, decoy %s size, via %s) emitted %s..., the file found by the include search holds %s...' % (
                name, case['loc'], case['cwd'], case['decoy'], case['via'], got[3:11].hex(), content[:8].hex()), case, {})
    finally:
        os.chdir(old)
        shutil.rmtree(root, ignore_errors=True)


def judge_two_dirs(asm, acc, seed):
    """main.asm embeds data.bin (next to it) and includes sub/part.asm which embeds *its own* data.bin; a third directory is on
    the include path.  Each include_bytes must embed the file found next to the file that holds the directive.  Assembled twice
    with the same include_dirs list object."""
    rng = random.Random('c10-two-%d' % seed)
    root = tempfile.mkdtemp(prefix='bbv-c10-')
    try:
        src = os.path.join(root, 'src')
        sub = os.path.join(src, 'sub')
        inc = os.path.join(root, 'inc')
        for d in (sub, inc):
            os.makedirs(d)
        a = bytes(rng.randrange(256) for _ in range(rng.randrange(1, 9)))
        b = bytes(rng.randrange(256) for _ in range(rng.randrange(1, 9)))
        open(os.path.join(src, 'data.bin'), 'wb').write(a)
        open(os.path.join(sub, 'data.bin'), 'wb').write(b)
        open(os.path.join(inc, 'other.asm'), 'w').write('OTHER = 1\n')
        open(os.path.join(sub, 'part.asm'), 'w').write('bytes 2\ninclude_bytes data.bin\n')
        order = rng.random() < 0.5
        body = ['bytes 1', 'include_bytes data.bin', 'include sub/part.asm'] if order else ['include sub/part.asm', 'bytes 1', 'include_bytes data.bin']
        main = os.path.join(src, 'main.asm')
        open(main, 'w').write('\n'.join(body + ['bytes 3']) + '\n')
        exp = (b'\x01' + a + b'\x02' + b) if order else (b'\x02' + b + b'\x01' + a)
        exp += b'\x03'
        incs = [inc]
        for rep in range(2):
            o = monitors.observe(asm, main, include_dirs=incs, tap=False)
            acc['n'] += 1
            acc['ctr']['two_directory_cases'] += 1
            acc['ntkeys'].add(core.ckey('two', seed, rep))
            if not o.ok or o.out != exp:
                core.add_viol(acc, 'include_bytes data.bin from two directories in one program (call %d with the same include_dirs list): %s; expected %s' % (
                    rep + 1, o.out.hex() if o.ok else o.exc['msg'], exp.hex()), {'kind': 'two', 'seed': seed}, {})
                break
    finally:
        shutil.rmtree(root, ignore_errors=True)


def run_shard(sh, deadline):
    asm = core.load_asm()
    acc = core.new_acc()
    if sh['kind'] == 'two':
        for k in range(sh['count']):
            judge_two_dirs(asm, acc, sh['seed'] * 1000 + k)
        return acc
    if sh['kind'] == 'num':
        numeric_shard(asm, acc, sh, deadline)
    elif sh['kind'] == 'str':
        string_shard(asm, acc, sh, deadline)
    else:
        for case in sh['cases']:
            judge_include_bytes(asm, acc, case)
        core.add_sample(acc, {'include_bytes_case': sh['cases'][0]})
    return acc


def plan(tier, seed):
    shards = [{'kind': 'num', 'seed': seed + i, 'random': 1500 if tier == 'quick' else 40000} for i in range(4 if tier == 'quick' else 64)]
    shards += [{'kind': 'str', 'seed': seed, 'idx': i, 'count': 400 if tier == 'quick' else 16000} for i in range(8 if tier == 'quick' else 128)]
    cases = []
    for loc in ('adjacent', 'incdir'):
        for cwd in ('src', 'elsewhere', 'decoy', 'root', 'removed'):
            for decoy in ('same', 'different'):
                for via in (('api', 'api-rel', 'cli') if cwd != 'removed' else ('api',)):
                    # (sizes beyond any buffer a reader might use: 4 KiB, 64 KiB, 1 MiB)
                    big = [65537, 150001] if (decoy == 'same' and via != 'api-rel' and cwd in ('src', 'elsewhere')) else []
                    for size in ([0, 1, 5000] + big if tier == 'quick' else [0, 1, 2, 64, 1000, 4097, 5000, 65536, 65537, 70000, 131073, 1048579]):
                        if via == 'cli' and tier == 'quick' and size == 1:
                            continue
                        cases.append({'kind': 'inc', 'loc': loc, 'cwd': cwd, 'decoy': decoy, 'via': via, 'size': size})
    nsh = 16
    shards += [{'kind': 'inc', 'cases': cases[i::nsh]} for i in range(nsh)]
    shards += [{'kind': 'two', 'seed': seed + i, 'count': 20 if tier == 'quick' else 300} for i in range(2 if tier == 'quick' else 32)]
    return {'shards': shards, 'budget_s': 300 if tier == 'quick' else 2400, 'extra_cov': {'include_bytes_cases': len(cases)}}


def gates(acc, tier):
    g = []
    if len(acc['seen'].get('directives', ())) != 9 + 30:
        g.append('directives exercised: %d of 39' % len(acc['seen'].get('directives', ())))
    if acc['ctr']['misfit_cases'] == 0 or acc['ctr']['fitting_cases'] == 0:
        g.append('value windows did not reach both sides of the width boundaries')
    if acc['ctr']['nonascii_strings'] == 0:
        g.append('no non-ASCII string case')
    if len(acc['seen'].get('include_bytes_cells', ())) < 40:
        g.append('include_bytes cells exercised: %d' % len(acc['seen'].get('include_bytes_cells', ())))
    return g


def replay(case):
    asm = core.load_asm()
    acc = core.new_acc()
    if case['kind'] == 'two':
        judge_two_dirs(asm, acc, case['seed'])
    elif case['kind'] == 'num':
        judge_numeric(asm, acc, case['line'], [tuple(p) for p in case['pieces']], case)
    elif case['kind'] == 'str':
        judge_string(asm, acc, case['text'], case.get('indent', ''))
    elif case['kind'] == 'locale':
        locale_case(asm, acc)
    elif case['kind'] == 'surrogate':
        acc['n'] += 1
        o = monitors.observe(asm, 'string ' + case['text'] + '\n', tap=False)
        if o.ok:
            try:
                o.out.decode('utf-8')
            except UnicodeDecodeError:
                core.add_viol(acc, 'string line %r emitted %s, which is not UTF-8 of any text' % ('string ' + case['text'], o.out.hex()), case, {})
    else:
        judge_include_bytes(asm, acc, case)
    return acc
