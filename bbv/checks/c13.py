"""C13 - documented spelling variants give identical bytes and labels.  DESIGN.md section 4 / C13.

Metamorphic monitor: the canonical rendering of a structured program vs N seeded re-renderings of the *same
structure* under the documented freedoms, applied independently per line and per operand.
"""
import random
import re
import time

from .. import core, monitors
from ..gen import program as P, randprog
from ..refmodel import operands as O

ID = 'C13'
LEVEL = 'exploration'
RULE = ('random structured programs (instructions of all formats incl. atomics / fence / csr / explicit c.*, pseudo-instructions, data, '
        'aligns, labels, constants) rendered canonically and re-rendered with: separators (comma / spaces / tabs / both), blank and '
        'whitespace-only lines, whole-line and trailing comments with hostile content (parens, commas, quotes, =, :, `string x`, '
        '`error x`, %hi( ...), indentation of instruction / label / data / constant lines, registers as number / xN / ABI alias (s0 / fp), '
        'integers as decimal / hex / binary in immediates, data, align, shift amounts, fence sets and aq/rl, and imm(reg) vs reg, imm for '
        'jalr / loads / stores / c.lw / c.sw.  One case = one (program, rewrite, compress) triple.  Non-trivial = the rewrite differs from '
        'the canonical text in at least 3 lines; distinct by rewrite text.')
ASSUMPTIONS = ['string / error lines keep their remainder literally (documented), so no comment is appended to them; include / include_bytes '
               'lines are outside the listed freedoms']

HOSTILE = ['# plain', '#', '# (paren', '# ) , = :', "# it's", '# string x', '# error boom', '#%hi(', '# L0: addi x1, x1, 1', '# "quoted" \'q\'',
           '#\ttab', '# 0x10(x2)', "# ','", '# \\n', '## banner ##', '# item #1', '#### section', '# a # b', "# '#' is 35",
           '# see C:\\fw\\', '# +-----\\', '#\\', '# a \\ b', '# K = 5', '# t0 := 1', '# é €', '# //', '# ;', '# /* c */', '# `x` {k} [0] $1 @a']
BASE_OFFSET = {'jalr', 'lb', 'lh', 'lw', 'lbu', 'lhu', 'sb', 'sh', 'sw', 'c.lw', 'c.sw'}
ABI = O.ABI


def s_reg(rng, n):
    k = rng.randrange(5)
    if k == 4:
        return hex(n)      # "a register written as number": the repository's own suite pins hex numbers (test_assemble_hex_register)
    if k == 0:
        return str(n)
    if k == 1:
        return 'x%d' % n
    if k == 2 and n == 8:
        return rng.choice(['s0', 'fp'])
    return ABI[n]


def s_int(rng, v):
    k = rng.randrange(5)
    if k == 0:
        return str(v)
    if k == 3:
        return ('-' if v < 0 else '') + '0x' + hex(abs(v))[2:].upper()        # hex digits in upper case
    if k == 4:
        return ('-' if v < 0 else '') + rng.choice(['0X' + hex(abs(v))[2:], '0B' + bin(abs(v))[2:]])    # Python literal syntax
    if rng.random() < 0.3:
        # leading zeros up to a customary width (`0x0001`, `0x000000fa`, `0b00000101`): the same number
        if k == 1:
            return ('-' if v < 0 else '') + '0x' + hex(abs(v))[2:].rjust(rng.choice([2, 4, 8]), '0')
        return ('-' if v < 0 else '') + '0b' + bin(abs(v))[2:].rjust(rng.choice([8, 16]), '0')
    return ('-' if v < 0 else '') + (hex(abs(v)) if k == 1 else bin(abs(v)))


def s_op(rng, op, kind=None):
    if 'i' in op:
        return s_int(rng, op['i'])
    if 'x' in op:
        return op['x'][0]
    if 'r' in op:
        return s_reg(rng, op['r'])
    if 'pos' in op:
        return '%%position(%s%s%s)' % (op['pos'][0], rng.choice([', ', ' ', ',']), s_op(rng, op['pos'][1]))
    if 'hi' in op:
        inner = s_op(rng, op['hi'])
        return '%%hi(%s)' % inner if rng.random() < 0.7 else '%%hi %s' % inner
    if 'lo' in op:
        inner = s_op(rng, op['lo'])
        return '%%lo(%s)' % inner if rng.random() < 0.7 else '%%lo %s' % inner
    if 'off' in op:
        return '%%offset(%s)' % op['off'] if rng.random() < 0.7 else '%%offset %s' % op['off']
    if 'sum' in op:
        return '%s%s+%s%s' % (s_op(rng, op['sum'][0]), rng.choice(['', ' ']), rng.choice(['', ' ']), s_int(rng, op['sum'][1]))
    return P.r_op(op)


def sep(rng):
    return rng.choice([', ', ' ', ',', ' , ', '\t', ',\t', '  '])


def s_item(rng, it):
    k = it['k']
    if k in ('string', 'gap'):
        return P.r_item(it), False
    if k == 'label':
        body = it['name'] + ':'
    elif k == 'const':
        body = '%s%s=%s%s' % (it['name'], rng.choice([' ', '  ', '\t']), rng.choice([' ', '  ', '\t']), it['text'])
    elif k == 'align':
        body = 'align%s%s' % (rng.choice([' ', '\t', '  ']), s_int(rng, it['n']) if it['n'] >= 0 else str(it['n']))
    elif k == 'seq':
        body = it['d'] + rng.choice([' ', '\t']) + sep(rng).join(s_int(rng, v) for v in it['vals'])
    elif k == 'data':
        body = it['d'] + rng.choice([' ', '\t', '  ']) + s_op(rng, it['val'])
    elif k == 'pack':
        body = 'pack' + rng.choice([' ', '\t']) + it['fmt'] + sep(rng) + s_op(rng, it['val'])
    elif k in ('inst', 'pseudo'):
        m = it['m']
        ops = it['ops']
        head = m
        modled = k == 'inst' and m in BASE_OFFSET and len(ops) == 3 and ('lo' in ops[2] or 'hi' in ops[2])
        if k == 'inst' and m in BASE_OFFSET and len(ops) == 3 and rng.random() < 0.5 and (modled or not ('hi' in ops[2] or 'lo' in ops[2] or 'pos' in ops[2] or 'off' in ops[2] or 'diff' in ops[2] or 'lab' in ops[2] or 'sum' in ops[2])):
            # imm(reg): for stores the documented alternative is `sw rs2, imm(rs1)`.  The offset is a literal / constant, or the
            # idiom `%lo(symbol)(reg)` (a modifier with its own parentheses in front of the base register)
            if modled:
                key = 'lo' if 'lo' in ops[2] else 'hi'
                imm_s = '%%%s(%s)' % (key, s_op(rng, ops[2][key]))
            else:
                imm_s = s_op(rng, ops[2])
            if m in ('sb', 'sh', 'sw', 'c.sw'):
                body = '%s%s%s%s%s(%s)' % (head, rng.choice([' ', '\t']), s_op(rng, ops[1]), sep(rng), imm_s, s_op(rng, ops[0]))
            else:
                body = '%s%s%s%s%s(%s)' % (head, rng.choice([' ', '\t']), s_op(rng, ops[0]), sep(rng), imm_s, s_op(rng, ops[1]))
        else:
            strs = [s_op(rng, o) for o in ops]
            if m in O.ATOMICS and (it.get('aq') or it.get('rl') or rng.random() < 0.5):
                strs += [s_int(rng, it.get('aq', 0)), s_int(rng, it.get('rl', 0))]
            body = head
            if strs:
                body += rng.choice([' ', '\t', '  ']) + strs[0]
                for s in strs[1:]:
                    body += sep(rng) + s
    else:
        body = P.r_item(it)
    line = rng.choice(['', '', '  ', '\t', '        ']) + body
    if rng.random() < 0.35:
        line += rng.choice(['', ' ', '\t', '  ']) + rng.choice(HOSTILE)
    elif rng.random() < 0.2:
        line += rng.choice([' ', '\t', '   '])
    return line, True


def respell(rng, items):
    out = []
    for it in items:
        r = rng.random()
        if r < 0.12:
            out.append(rng.choice(['', '   ', '\t', ' \t ']))
        elif r < 0.24:
            out.append(rng.choice(['', '  ', '\t']) + rng.choice(HOSTILE))
        line, _ = s_item(rng, it)
        out.append(line)
    if rng.random() < 0.5:
        out.append(rng.choice(['', '# the end', '   ']))
    return out


def extra_items(rng):
    """formats randprog does not produce: atomics with aq/rl, csr immediates forms, explicit c.* with offsets"""
    out = []
    R = lambda: {'r': rng.randrange(32)}  # noqa
    for _ in range(rng.randint(0, 4)):
        m = rng.choice(sorted(O.ATOMICS))
        it = {'k': 'inst', 'm': m, 'ops': [R(), R()] if m == 'lr.w' else [R(), R(), R()], 'aq': rng.randrange(2), 'rl': rng.randrange(2)}
        out.append(it)
    for _ in range(rng.randint(0, 2)):
        out.append({'k': 'inst', 'm': rng.choice(['csrrwi', 'csrrsi', 'csrrci']), 'ops': [R(), {'i': rng.randrange(32)}, {'i': rng.choice([0, 0x300, 0x7ff])}]})
    for _ in range(rng.randint(0, 3)):
        # literal (numeric) branch / jump targets: the target position is parsed as an integer, not as an expression
        m = rng.choice(['beq', 'bne', 'bltu', 'jal', 'c.j', 'c.beqz'])
        v = 2 * rng.randrange(-100, 100)
        if m == 'jal':
            out.append({'k': 'inst', 'm': m, 'ops': [R(), {'i': 2 * rng.randrange(-5000, 5000)}]})
        elif m == 'c.j':
            out.append({'k': 'inst', 'm': m, 'ops': [{'i': v}]})
        elif m == 'c.beqz':
            out.append({'k': 'inst', 'm': m, 'ops': [{'r': rng.randrange(8, 16)}, {'i': v}]})
        else:
            out.append({'k': 'inst', 'm': m, 'ops': [R(), R(), {'i': v * 8}]})
    for _ in range(rng.randint(0, 2)):
        out.append({'k': 'inst', 'm': rng.choice(['c.lw', 'c.sw']), 'ops': [{'r': rng.randrange(8, 16)}, {'r': rng.randrange(8, 16)}, {'i': rng.choice([0, 4, 64, 124])}]})
    if rng.random() < 0.5:
        # compressed load / store whose offset is the low part of an address: `c.lw x8, x9, %lo(65540)` or `c.lw x8, %lo(65540)(x9)`
        v = rng.choice([0x10004, 0x20000040, 0x1007c, 0x10000])
        out.append({'k': 'inst', 'm': rng.choice(['c.lw', 'c.sw']), 'ops': [{'r': rng.randrange(8, 16)}, {'r': rng.randrange(8, 16)}, {'lo': {'i': v}}]})
    return out


def r_canon(it):
    if it['k'] == 'inst' and it['m'] in O.ATOMICS:
        return P.r_item(it) + ', %d, %d' % (it.get('aq', 0), it.get('rl', 0))
    return P.r_item(it)


CFGS = [dict(), dict(w_labimm=14, w_data=14, w_align=10), dict(w_inst=40, w_cinst=10, w_pseudo=16, compress_bias=0.8),
        dict(w_xfer=26, w_li=12, labels=(2, 7))]


def run_case(asm, acc, case):
    rng = random.Random('c13-%d-%d' % (case['seed'], case['idx']))
    items = randprog.gen(rng, CFGS[case['idx'] % len(CFGS)])
    ex = extra_items(rng)
    for e in ex:
        items.insert(rng.randrange(len(items) + 1), e)
    if case['idx'] % 3 == 0:
        items = randprog.constify(rng, items, 0.2)
    if case['idx'] % 4 == 1:
        # labels named like the tail of a literal the program contains (`xff:` next to `0xff`, `b11:` next to `0b11`): the freedom to
        # write a number in another base must not depend on what the labels are called
        def ints(o):
            if isinstance(o, dict):
                if isinstance(o.get('i'), int):
                    yield abs(o['i'])
                if isinstance(o.get('x'), list) and len(o['x']) == 2 and isinstance(o['x'][1], int):
                    yield abs(o['x'][1])
                for v in o.values():
                    yield from ints(v)
            elif isinstance(o, list):
                for v in o:
                    yield from ints(v)
        vals = sorted(set(v for v in ints(items) if v > 1))
        rng3 = random.Random('c13-tails-%d-%d' % (case['seed'], case['idx']))
        rng3.shuffle(vals)
        pool = []
        for v in vals:
            pool += rng3.sample(['x%x' % v, 'b' + bin(v)[2:], 'X%X' % v, 'B' + bin(v)[2:], 'x%X' % v], 2)
        pool = [n for n in dict.fromkeys(pool) if not re.fullmatch(r'[xX][0-9]+', n)]       # (x10 is a register)
        names = [it['name'] for it in items if it['k'] == 'label']
        items = P.rename_labels(items, dict(zip(names, pool)))
        acc['ctr']['programs_with_labels_named_like_literal_tails'] += 1
    canon = [r_canon(it) for it in items]
    # a fifth of the programs is built by a caller whose label table holds external symbols named like registers (a firmware whose earlier
    # stage has labels `t0:` / `sp:` / `x9:`): in a register position a register name is a register, however it is spelled
    ext = (lambda: {'labels': {'t0': 4, 'a0': 8, 'sp': 0x20005000, 'gp': 0x20000800, 's1': 12, 'x9': 16, 'ra': 20, 'zero': 24, 'fp': 28, 'x15': 32, 't6': 36}}) if case['idx'] % 5 == 2 else (lambda: None)
    if case['idx'] % 5 == 2:
        acc['ctr']['programs_built_with_register_named_external_symbols'] += 1
    for compress in (False, True):
        a = monitors.observe(asm, '\n'.join(canon) + '\n', compress, tap=False, preseed=ext())
        if not a.ok:
            acc['ctr']['canonical_refused'] += 1
            acc['n'] += 1
            # the documented freedoms work both ways: if the canonical spelling is refused, no rewrite of it may assemble
            for k in range(min(3, case['rewrites'])):
                r2 = random.Random('c13-rw-%d-%d-%d' % (case['seed'], case['idx'], k))
                lines = respell(r2, items)
                b = monitors.observe(asm, '\n'.join(lines) + '\n', compress, tap=False, preseed=ext())
                acc['n'] += 1
                if b.ok:
                    n = a.exc.get('number')
                    core.add_viol(acc, 'canonical spelling is refused (%s: %s at %r) but a rewrite under the documented freedoms assembles (compress=%s)' % (
                        a.exc['type'], a.exc['msg'], canon[n - 1] if n and n <= len(canon) else None, compress), dict(case, compress=compress, rewrite=k),
                        {'canonical': canon[:80], 'rewrite': lines[:80]})
                    break
            continue
        acc['ctr']['canonical_accepted'] += 1
        for k in range(case['rewrites']):
            r2 = random.Random('c13-rw-%d-%d-%d' % (case['seed'], case['idx'], k))
            lines = respell(r2, items)
            acc['n'] += 1
            b = monitors.observe(asm, '\n'.join(lines) + '\n', compress, tap=False, preseed=ext())
            rcase = dict(case, compress=compress, rewrite=k)
            ndiff = sum(1 for l in lines if l not in canon)
            if ndiff >= 3:
                acc['ntkeys'].add(core.ckey('\n'.join(lines), compress))
            if not b.ok:
                n = b.exc.get('number')
                core.add_viol(acc, 'rewrite is refused (%s: %s) at line %r; canonical line set assembles (compress=%s)' % (
                    b.exc['type'], b.exc['msg'], lines[n - 1] if n and n <= len(lines) else None, compress), rcase, {'rewrite': lines[:80]})
            elif b.out != a.out:
                first = next((i for i in range(min(len(a.out), len(b.out))) if a.out[i] != b.out[i]), min(len(a.out), len(b.out)))
                core.add_viol(acc, 'rewrite assembles to different bytes (first difference at offset %d, lengths %d/%d, compress=%s)' % (
                    first, len(b.out), len(a.out), compress), rcase, {'rewrite': lines[:80], 'canonical': canon[:80]})
            elif b.labels != a.labels:
                core.add_viol(acc, 'rewrite gives a different label table: %r vs %r' % (b.labels, a.labels), rcase, {'rewrite': lines[:80]})
            if case['idx'] % 173 == 0 and k == 0 and not compress:
                core.add_sample(acc, {'canonical': canon[:8], 'rewrite': lines[:12]})


INCBYTES_SPELLINGS = ['include_bytes blob.bin', '    include_bytes blob.bin', '\tinclude_bytes blob.bin', 'include_bytes\tblob.bin', 'include_bytes   blob.bin',
                      'include_bytes blob.bin # the font', 'include_bytes blob.bin   #8x8', '  include_bytes  blob.bin  # indented, commented', 'include_bytes blob.bin\t']


def incbytes_case(asm, acc, seed, idx):
    """`include_bytes` is a data line like `bytes`: indentation, the blank run after the keyword and a trailing comment are free"""
    import os, shutil, tempfile
    root = tempfile.mkdtemp(prefix='bbv-c13-')
    try:
        rng = random.Random('c13-ib-%d-%d' % (seed, idx))
        with open(os.path.join(root, 'blob.bin'), 'wb') as f:
            f.write(bytes(rng.randrange(256) for _ in range(rng.choice([2, 4, 6, 10]))))
        outs = []
        for k, sp in enumerate(INCBYTES_SPELLINGS):
            lines = ['START:', 'addi x8, x8, 1', sp, 'AFTER:', 'j START']
            path = os.path.join(root, 'm%d.asm' % k)
            with open(path, 'w') as f:
                f.write('\n'.join(lines) + '\n')
            for compress in (False, True):
                acc['n'] += 1
                o = monitors.observe(asm, path, compress, tap=False)
                outs.append((sp, compress, o))
        for sp, compress, o in outs:
            ref = next(r for s0, c0, r in outs if c0 == compress)
            case = {'kind': 'incbytes', 'seed': seed, 'idx': idx}
            acc['ntkeys'].add(core.ckey('ib', sp, compress, idx))
            acc['ctr']['include_bytes_spellings'] += 1
            if ref.ok and not o.ok:
                core.add_viol(acc, 'rewrite is refused (%s: %s) at line %r; the plain spelling assembles (compress=%s)' % (o.exc['type'], o.exc['msg'], sp, compress), case, {})
            elif ref.ok and (o.out != ref.out or o.labels != ref.labels):
                core.add_viol(acc, 'line %r: %d bytes, labels %r; the plain spelling gives %d bytes, labels %r (compress=%s)' % (
                    sp, len(o.out), o.labels, len(ref.out), ref.labels, compress), case, {})
    finally:
        shutil.rmtree(root, ignore_errors=True)


def run_shard(sh, deadline):
    asm = core.load_asm()
    acc = core.new_acc()
    if sh['lo'] % 400 == 0:
        incbytes_case(asm, acc, sh['seed'], sh['lo'])
    for idx in range(sh['lo'], sh['hi']):
        run_case(asm, acc, {'seed': sh['seed'], 'idx': idx, 'rewrites': sh['rewrites']})
        if time.time() > deadline:
            acc['truncated'] += 1
            break
    return acc


def plan(tier, seed):
    n, rw = (1200, 8) if tier == 'quick' else (50000, 16)
    st = 40 if tier == 'quick' else 400
    return {'shards': [{'seed': seed, 'lo': lo, 'hi': min(n, lo + st), 'rewrites': rw} for lo in range(0, n, st)],
            'budget_s': 300 if tier == 'quick' else 3000}


def gates(acc, tier):
    g = []
    if acc['ctr']['canonical_accepted'] < 0.7 * max(1, acc['ctr']['canonical_accepted'] + acc['ctr']['canonical_refused']):
        g.append('only %d canonical programs accepted, %d refused' % (acc['ctr']['canonical_accepted'], acc['ctr']['canonical_refused']))
    return g


def replay(case):
    asm = core.load_asm()
    if case.get('kind') == 'incbytes':
        acc = core.new_acc()
        incbytes_case(asm, acc, case['seed'], case['idx'])
        return acc
    acc = core.new_acc()
    run_case(asm, acc, {'seed': case['seed'], 'idx': case['idx'], 'rewrites': max(case.get('rewrite', 0) + 1, 1)})
    return acc
