"""C12 - compression never turns a successful build into a failed one.  DESIGN.md section 4 / C12.

Refuted by a program for which assemble(src, compress=False) returns and assemble(src, compress=True) raises.
"""
import random
import time

from .. import core, monitors
from ..gen import program as P, randprog

ID = 'C12'
LEVEL = 'exploration'
RULE = ('random structured programs (instructions, pseudo-instructions, data, aligns, gaps, transfers) with constants and register-alias '
        'constants substituted for literals - in particular as shift amounts and compressed-register operands - plus targeted "edge" '
        'programs whose label-dependent immediates (%hi/%lo/bare label/L2-L1/%position) sit just inside or outside an RVC operand set '
        'once label-moving items (shrinking li, compressible code, near call, aligns) have settled, plus far call/tail.  One case = '
        'one program assembled in both modes.  Non-trivial = accepted without compression and containing at least one constant-valued, '
        'alias-valued or label-dependent operand or a far transfer; distinct by program text.')
ASSUMPTIONS = ['only the outcome (bytes vs exception) at the assemble() boundary is compared; the meaning of the compressed build is C04\'s business']

CFGS = [
    dict(),
    dict(w_inst=44, compress_bias=0.9, w_cinst=6),
    dict(w_labimm=22, w_li=10, w_align=10, labels=(2, 6)),
    dict(w_xfer=24, big_gap=0.3, w_gap=6),
]


def movers(rng, n):
    out = []
    for _ in range(n):
        c = rng.random()
        if c < 0.35:
            out.append({'k': 'pseudo', 'm': 'li', 'ops': [{'r': rng.choice([5, 8, 15])}, {'i': rng.choice([0, 7, 31, 100, 2047, -2048, 0x12345])}]})
        elif c < 0.7:
            out.append(randprog.plain_inst(rng, 1.0))
        elif c < 0.74:
            out.append({'k': 'string', 'text': rng.choice(['é', 'ab€x', 'Ωß', 'q中z ', '😀', 'okay'])})     # all of even UTF-8 length
        elif c < 0.76:
            # a pack format without byte-order character (accepted, native mode): whatever its size is, what follows must know it
            out.append({'k': 'packn', 'fmt': rng.choice(['L', 'l', 'Q', 'H', 'I']), 'val': rng.randrange(0, 1 << 15)})
        elif c < 0.80:
            out.append({'k': 'seq', 'd': rng.choice(['shorts', 'ints', 'longs', 'longs', 'longlongs']), 'vals': [rng.randrange(0, 1 << 15) for _ in range(rng.randint(1, 3))]})
        elif c < 0.88:
            out.append({'k': 'align', 'n': rng.choice([2, 4, 8, 16])})
        else:
            out.append({'k': 'pseudo', 'm': rng.choice(['call', 'tail']), 'ops': [{'t': 'S'}]})
    return out


def edge_program(rng):
    """label-dependent immediate whose final value is near an RVC operand-set edge"""
    items = [{'k': 'label', 'name': 'S'}]
    kind = rng.randrange(8)
    rd = {'r': rng.choice([8, 9, 15, 5, 1, 2])}
    r8 = {'r': rng.randrange(8, 16)}
    target = rng.choice([0, 4, 8, 28, 32, 36, 60, 64, 124, 128, 252, 256, 496, 508, 512, 1020, 1024, 0x7fc, 0x800, 0x804, 0xffc, 0x1000, 0x1004,
                         0x1f000, 0x1fffc, 0x20000, 0x20004])
    pre = movers(rng, rng.randint(0, 6))
    if kind == 0:
        use = {'k': 'inst', 'm': 'lui', 'ops': [rd, {'hi': {'lab': 'T'}}]}
    elif kind == 1:
        use = {'k': 'inst', 'm': 'addi', 'ops': [rd, rd, {'lo': {'lab': 'T'}}]}
    elif kind == 2:
        use = {'k': 'inst', 'm': rng.choice(['lw', 'sw']), 'ops': [r8, {'r': rng.choice([2, 8, 9])}, {'lo': {'lab': 'T'}}]}
    elif kind == 3:
        use = {'k': 'inst', 'm': 'addi', 'ops': [rd, rd, {'diff': ['T', 'M']}]}
    elif kind == 4:
        use = {'k': 'pseudo', 'm': 'li', 'ops': [rd, {'lab': 'T'}]}
    elif kind == 5:
        use = {'k': 'inst', 'm': 'addi', 'ops': [{'r': 2}, {'r': 2}, {'diff': ['T', 'M']}]}
    elif kind == 6:
        use = {'k': 'inst', 'm': 'andi', 'ops': [r8, dict(r8), {'lo': {'pos': ['T', {'i': rng.choice([0, -32, 0x1000])}]}}]}
    else:
        use = {'k': 'inst', 'm': 'jalr', 'ops': [{'r': rng.choice([0, 1])}, rd, {'lo': {'lab': 'T'}}]}
    before = rng.random() < 0.5
    body = pre + [{'k': 'label', 'name': 'M'}]
    mid = movers(rng, rng.randint(0, 5))
    if kind in (3, 5):
        # T - M must not grow under compression: an align between the two labels may pad *more* in the compressed build
        # (legitimately), which can push a just-representable difference out of range - not a defect (DESIGN.md 3.2)
        mid = [it for it in mid if it['k'] != 'align']
    if before:
        items += [use] + body + mid
    else:
        items += body + mid
    # pad so that T lands near `target` in the uncompressed build (pessimistic sizes): the final value is at or below it
    sz = sum(randprog.pess_size(it) for it in items) + (0 if before else 4)
    gap = target - sz
    if kind in (3, 5):
        gap = max(0, target - sum(randprog.pess_size(it) for it in mid) - (0 if before else 4))
    if gap > 0:
        items.append({'k': 'gap', 'n': gap - gap % 2})
    if not before:
        items.append(use)
    items += [{'k': 'label', 'name': 'T'}, {'k': 'pseudo', 'm': 'nop', 'ops': []}]
    return items


def shift_const_program(rng):
    items = []
    for k in range(rng.randint(1, 6)):
        name = 'S%d' % k
        v = rng.choice([0, 1, 3, 5, 31])
        items.append({'k': 'const', 'name': name, 'value': v, 'text': rng.choice([str(v), hex(v), '%d + 0' % v])})
        r = {'r': rng.choice([8, 15, 1, 5, 31, 0])}
        r2 = r if rng.random() < 0.7 else {'r': rng.choice([8, 9, 1])}
        items.append({'k': 'inst', 'm': rng.choice(['slli', 'srli', 'srai']), 'ops': [r, dict(r2), {'c': name}]})
    return randprog.constify(rng, items, 0.3)


DIST_X = [('bz', 'beq'), ('bz', 'bne'), ('jal', 0), ('jal', 1), ('p', 'j'), ('p', 'jal'), ('p', 'beqz'), ('p', 'bnez'), ('p', 'call'), ('p', 'tail')]
DIST_D = [250, 252, 254, 256, 258, 260, 262, 2040, 2042, 2044, 2046, 2048, 2050, 2052, 2054]


def dist_program(asm, case):
    """a compress-eligible transfer whose *final compressed* distance to its label sits on an RVC reach boundary, with
    compressible / shrinking items before and between (the compression decision is taken on label values that still move)"""
    from . import c03
    k = case['idx']
    x = DIST_X[k % len(DIST_X)]
    D = DIST_D[(k // len(DIST_X)) % len(DIST_D)]
    d = ['fwd', 'bwd'][(k // (len(DIST_X) * len(DIST_D))) % 2]
    sc = {'x': list(x), 'dir': d, 'D': D, 'filler': ['comp', 'li', 'mix', 'call'][(k // 7) % 4], 'compress': True, 'pre': 1 + k % 3}
    gap = 0
    sign = 1 if d == 'fwd' else -1
    items = None
    for _ in range(4):
        items, X = c03.build_sweep(sc, gap)
        ex, dist = c03.measure(asm, items, X, True)
        if dist is None:
            break
        delta = D - sign * dist
        if delta == 0 or gap + delta < 0 or (gap + delta) % 2:
            break
        gap += delta
    return items


def abs_target_program(rng):
    """a transfer to an absolute address (a constant in the target position) next to an RVC / near-call reach edge as seen from the
    pessimistic position of the transfer.  The 32-bit form reaches the address from every position between 0 and that one, so however
    much the code in front shrinks under -c there is an encoding: a refusal under -c is a decision taken too early, not a necessity"""
    pre = [{'k': 'label', 'name': 'S'}] + movers(rng, rng.randint(1, 10))
    pess = sum(randprog.pess_size(it) for it in pre)
    kind = rng.choice(['jal1', 'jal0', 'j', 'jalp', 'beq', 'bne', 'beqz', 'bnez', 'call', 'tail'])
    edge = {'beq': 254, 'bne': 254, 'beqz': 254, 'bnez': 254, 'call': (1 << 20) - 2, 'tail': (1 << 20) - 2}.get(kind, 2046)
    T = pess + edge + rng.choice([-6, -4, -2, 0, 2, 4, 6, 8, 12, 16, 24, 40])
    r = {'r': rng.randrange(8, 16)}
    t = {'t': 'TABS'}
    x = {'jal1': {'k': 'inst', 'm': 'jal', 'ops': [{'r': 1}, t]}, 'jal0': {'k': 'inst', 'm': 'jal', 'ops': [{'r': 0}, t]},
         'j': {'k': 'pseudo', 'm': 'j', 'ops': [t]}, 'jalp': {'k': 'pseudo', 'm': 'jal', 'ops': [t]},
         'beq': {'k': 'inst', 'm': 'beq', 'ops': [r, {'r': 0}, t]}, 'bne': {'k': 'inst', 'm': 'bne', 'ops': [r, {'r': 0}, t]},
         'beqz': {'k': 'pseudo', 'm': 'beqz', 'ops': [r, t]}, 'bnez': {'k': 'pseudo', 'm': 'bnez', 'ops': [r, t]},
         'call': {'k': 'pseudo', 'm': 'call', 'ops': [t]}, 'tail': {'k': 'pseudo', 'm': 'tail', 'ops': [t]}}[kind]
    return [{'k': 'const', 'name': 'TABS', 'value': T, 'text': rng.choice([str, hex])(T)}] + pre + [x, {'k': 'pseudo', 'm': 'ret', 'ops': []}]


def make(case, asm=None):
    rng = random.Random('c12-%s-%d-%d' % (case['kind'], case['seed'], case['idx']))
    if case['kind'] == 'dist':
        return dist_program(asm, case)
    if case['kind'] == 'edge':
        items = edge_program(rng)
        if rng.random() < 0.3:
            items = randprog.constify(rng, items, 0.3)
    elif case['kind'] == 'shift':
        items = shift_const_program(rng)
    elif case['kind'] == 'abs':
        items = abs_target_program(rng)
    else:
        items = randprog.gen(rng, CFGS[case['idx'] % len(CFGS)])
        items = randprog.constify(rng, items, rng.choice([0.15, 0.4, 0.7]))
    return items


def interesting(items):
    for it in items:
        ops = it.get('ops') or ([it['val']] if 'val' in it else [])
        for o in ops:
            if isinstance(o, dict) and ('c' in o or 'cr' in o or P.label_dependent(o)):
                return True
        if it['k'] == 'gap' and it['n'] >= (1 << 20):
            return True
        if it['k'] == 'label' and it['name'] == 'T':
            return True
    return False


def run_case(asm, acc, case):
    items = make(case, asm)
    lines = P.render(items)
    src = '\n'.join(lines) + '\n'
    acc['n'] += 1
    preseed = None
    if case['idx'] % 4 == 3:
        # the caller's label table is left over from an earlier build: this program's own names, stale values, another order
        names = [it['name'] for it in items if it['k'] == 'label']
        prng = random.Random('c12-pre-%d' % case['idx'])
        prng.shuffle(names)
        preseed = {'labels': {n: 2 * prng.randrange(0, 3000) for n in names}}
        acc['ctr']['builds_with_leftover_label_table'] += 1
    if case['kind'] == 'abs' and case['idx'] % 2:
        # the absolute address comes in through the caller's label table (an external symbol) instead of a constant
        ext = {it['name']: it['value'] for it in items if it['k'] == 'const' and it['name'] == 'TABS'}
        items = [it for it in items if not (it['k'] == 'const' and it['name'] == 'TABS')]
        lines = P.render(items)
        src = '\n'.join(lines) + '\n'
        preseed = {'labels': dict((preseed or {}).get('labels', {}), **ext)}
        acc['ctr']['builds_with_an_external_target'] += 1
    mk = lambda: None if preseed is None else {'labels': dict(preseed['labels'])}  # noqa
    u = monitors.observe(asm, src, False, tap=False, preseed=mk())
    if not u.ok:
        acc['ctr']['refused_uncompressed'] += 1
        acc['ctr']['refused_u:' + u.exc['type']] += 1
        return
    acc['ctr']['accepted_uncompressed'] += 1
    if interesting(items):
        acc['ntkeys'].add(core.ckey(src))
    c = monitors.observe(asm, src, True, tap=False, preseed=mk())
    if c.ok:
        acc['ctr']['accepted_both'] += 1
        if len(c.out) < len(u.out):
            acc['ctr']['compression_happened'] += 1
    else:
        core.add_viol(acc, 'program assembles without compression (%d bytes) but fails with it: %s: %s (line %s: %r)' % (
            len(u.out), c.exc['type'], c.exc['msg'], c.exc.get('number'), lines[c.exc['number'] - 1] if c.exc.get('number') and 0 < c.exc['number'] <= len(lines) else None),
            case, {'lines': lines[:80]}, key=classify_exc(c.exc))
    if case['idx'] % 101 == 0:
        core.add_sample(acc, {'kind': case['kind'], 'program': lines[:10], 'uncompressed_bytes': len(u.out), 'compressed': len(c.out) if c.ok else c.exc})


def classify_exc(exc):
    return None


def run_shard(sh, deadline):
    asm = core.load_asm()
    acc = core.new_acc()
    for case in sh['cases']:
        run_case(asm, acc, case)
        core.see(acc, 'families', case['kind'])
        if time.time() > deadline:
            acc['truncated'] += 1
            break
    return acc


def plan(tier, seed):
    n = {'rand': 3000, 'edge': 2500, 'shift': 500, 'dist': 1200, 'abs': 1500} if tier == 'quick' else {'rand': 120000, 'edge': 70000, 'shift': 10000, 'dist': 24000, 'abs': 60000}
    cases = [{'kind': k, 'seed': seed, 'idx': i} for k, cnt in n.items() for i in range(cnt)]
    nsh = 64 if tier == 'quick' else 512
    shards = [{'cases': cases[i::nsh]} for i in range(nsh)]
    return {'shards': shards, 'budget_s': 300 if tier == 'quick' else 3000}


def gates(acc, tier):
    g = []
    if acc['ctr']['accepted_uncompressed'] < 0.6 * acc['n']:
        g.append('only %d of %d generated programs assemble without compression' % (acc['ctr']['accepted_uncompressed'], acc['n']))
    if acc['ctr']['compression_happened'] == 0 and not acc['nviol']:
        g.append('compression never shortened a program: the compress flag had no observable effect')
    if len(acc['seen'].get('families', ())) < 5:
        g.append('program families missing')
    return g


def replay(case):
    asm = core.load_asm()
    acc = core.new_acc()
    run_case(asm, acc, case)
    return acc
