"""C12 - compression never turns a successful build into a failed one.  DESIGN.md section 4 / C12.

Refuted by a program for which assemble(src, compress=False) returns and assemble(src, compress=True) raises.
"""
import random
import time

from .. import core, monitors
from ..gen import program as P, randprog

ID = 'C12'
LEVEL = 'exploration'
RULE = ('random structured programs (instructions, pseudo-instructions, data, aligns, gaps, transfers) with constants and register-alias '
        'constants substituted for literals - in particular as shift amounts and compressed-register operands - plus targeted "edge" '
        'programs whose label-dependent immediates (%hi/%lo/bare label/L2-L1/%position) sit just inside or outside an RVC operand set '
        'once label-moving items (shrinking li, compressible code, near call, aligns) have settled, plus far call/tail.  One case = '
        'one program assembled in both modes.  Non-trivial = accepted without compression and containing at least one constant-valued, '
        'alias-valued or label-dependent operand or a far transfer; distinct by program text.')
ASSUMPTIONS = ['only the outcome (bytes vs exception) at the assemble() boundary is compared; the meaning of the compressed build is C04\'s business']

CFGS = [
    dict(),
    dict(w_inst=44, compress_bias=0.9, w_cinst=6),
    dict(w_labimm=22, w_li=10, w_align=10, labels=(2, 6)),
    dict(w_xfer=24, big_gap=0.3, w_gap=6),
]


def movers(rng, n):
    out = []
    for _ in range(n):
        c = rng.random()
        if c < 0.35:
            out.append({'k': 'pseudo', 'm': 'li', 'ops': [{'r': rng.choice([5, 8, 15])}, {'i': rng.choice([0, 7, 31, 100, 2047, -2048, 0x12345, 0xffffffff, 0xfffff800, 0xfffffff0])}]})       # (the last three: small only as 32-bit words)
        elif c < 0.7:
            out.append(randprog.plain_inst(rng, 1.0))
        elif c < 0.74:
            out.append({'k': 'string', 'text': rng.choice(['é', 'ab€x', 'Ωß', 'q中z ', '😀', 'okay'])})     # all of even UTF-8 length
        elif c < 0.76:
            # a pack format without byte-order character (accepted, native mode): whatever its size is, what follows must know it
            out.append({'k': 'packn', 'fmt': rng.choice(['L', 'l', 'Q', 'H', 'I']), 'val': rng.randrange(0, 1 << 15)})
        elif c < 0.80:
            out.append({'k': 'seq', 'd': rng.choice(['shorts', 'ints', 'longs', 'longs', 'longlongs']), 'vals': [rng.randrange(0, 1 << 15) for _ in range(rng.randint(1, 3))]})
        elif c < 0.88:
            out.append({'k': 'align', 'n': rng.choice([2, 4, 8, 16])})
        else:
            out.append({'k': 'pseudo', 'm': rng.choice(['call', 'tail']), 'ops': [{'t': 'S'}]})
    return out


def edge_program(rng):
    """label-dependent immediate whose final value is near an RVC operand-set edge"""
    items = [{'k': 'label', 'name': 'S'}]
    kind = rng.randrange(10)
    rd = {'r': rng.choice([8, 9, 15, 5, 1, 2])}
    r8 = {'r': rng.randrange(8, 16)}
    target = rng.choice([0, 4, 8, 28, 32, 36, 60, 64, 124, 128, 252, 256, 496, 508, 512, 1020, 1024, 0x7fc, 0x800, 0x804, 0xffc, 0x1000, 0x1004,
                         0x1f000, 0x1fffc, 0x20000, 0x20004])
    pre = movers(rng, rng.randint(0, 6))
    if kind == 0:
        use = {'k': 'inst', 'm': 'lui', 'ops': [rd, {'hi': {'lab': 'T'}}]}
    elif kind == 1:
        use = {'k': 'inst', 'm': 'addi', 'ops': [rd, rd, {'lo': {'lab': 'T'}}]}
    elif kind == 2:
        use = {'k': 'inst', 'm': rng.choice(['lw', 'sw']), 'ops': [r8, {'r': rng.choice([2, 8, 9])}, {'lo': {'lab': 'T'}}]}
    elif kind == 3:
        use = {'k': 'inst', 'm': 'addi', 'ops': [rd, rd, {'diff': ['T', 'M']}]}
    elif kind == 4:
        use = {'k': 'pseudo', 'm': 'li', 'ops': [rd, {'lab': 'T'}]}
    elif kind == 5:
        use = {'k': 'inst', 'm': 'addi', 'ops': [{'r': 2}, {'r': 2}, {'diff': ['T', 'M']}]}
    elif kind == 6:
        use = {'k': 'inst', 'm': 'andi', 'ops': [r8, dict(r8), {'lo': {'pos': ['T', {'i': rng.choice([0, -32, 0x1000])}]}}]}
    elif kind == 7:
        use = {'k': 'inst', 'm': 'jalr', 'ops': [{'r': rng.choice([0, 1])}, rd, {'lo': {'lab': 'T'}}]}
    else:
        # the distance to an absolute address (a constant): position-relative although no label is involved.  TABS is placed below
        # so that the low 12 bits of the distance are around 0 where the compression pass looks at them
        use = {'k': 'pseudo', 'm': 'li', 'ops': [rd, {'off': 'TABS'} if kind == 8 else rng.choice([{'lo': {'off': 'TABS'}}, {'hi': {'off': 'TABS'}}])]}
    before = rng.random() < 0.5
    if kind >= 8 and rng.random() < 0.6:
        # only an `align` in front: its pessimistic size is what the compression pass sees, its real padding what remains
        pre = [{'k': 'seq', 'd': 'shorts', 'vals': [0x1234] * rng.choice([1, 2, 3])}, {'k': 'align', 'n': rng.choice([4, 8, 16])}]
        before = False
    body = pre + [{'k': 'label', 'name': 'M'}]
    mid = movers(rng, rng.randint(0, 5))
    if kind in (3, 5):
        # T - M must not grow under compression: an align between the two labels may pad *more* in the compressed build
        # (legitimately), which can push a just-representable difference out of range - not a defect (DESIGN.md 3.2)
        mid = [it for it in mid if it['k'] != 'align']
    if before:
        items += [use] + body + mid
    else:
        items += body + mid
    # pad so that T lands near `target` in the uncompressed build (pessimistic sizes): the final value is at or below it
    sz = sum(randprog.pess_size(it) for it in items) + (0 if before else 4)
    gap = target - sz
    if kind in (3, 5):
        gap = max(0, target - sum(randprog.pess_size(it) for it in mid) - (0 if before else 4))
    if gap > 0:
        items.append({'k': 'gap', 'n': gap - gap % 2})
    if not before:
        items.append(use)
    items += [{'k': 'label', 'name': 'T'}, {'k': 'pseudo', 'm': 'nop', 'ops': []}]
    if kind >= 8:
        at = sum(randprog.pess_size(it) for it in items[:items.index(use)])
        v = at + rng.choice([0, 0x1000, 0x5000, 0x20000000]) + rng.choice([-40, -34, -32, -30, -8, -4, -2, 0, 0, 0, 0, 0, 2, 4, 8, 28, 30, 32, 34, 40])
        items.insert(0, {'k': 'const', 'name': 'TABS', 'value': v, 'text': rng.choice([str, hex])(v)})
    return items


def shift_const_program(rng):
    items = []
    for k in range(rng.randint(1, 6)):
        name = 'S%d' % k
        v = rng.choice([0, 1, 3, 5, 31])
        items.append({'k': 'const', 'name': name, 'value': v, 'text': rng.choice([str(v), hex(v), '%d + 0' % v])})
        r = {'r': rng.choice([8, 15, 1, 5, 31, 0])}
        r2 = r if rng.random() < 0.7 else {'r': rng.choice([8, 9, 1])}
        items.append({'k': 'inst', 'm': rng.choice(['slli', 'srli', 'srai']), 'ops': [r, dict(r2), {'c': name}]})
    return randprog.constify(rng, items, 0.3)


DIST_X = [('bz', 'beq'), ('bz', 'bne'), ('jal', 0), ('jal', 1), ('p', 'j'), ('p', 'jal'), ('p', 'beqz'), ('p', 'bnez'), ('p', 'call'), ('p', 'tail')]
DIST_D = [250, 252, 254, 256, 258, 260, 262, 2040, 2042, 2044, 2046, 2048, 2050, 2052, 2054]


def dist_program(asm, case):
    """a compress-eligible transfer whose *final compressed* distance to its label sits on an RVC reach boundary, with
    compressible / shrinking items before and between (the compression decision is taken on label values that still move)"""
    from . import c03
    k = case['idx']
    x = DIST_X[k % len(DIST_X)]
    D = DIST_D[(k // len(DIST_X)) % len(DIST_D)]
    d = ['fwd', 'bwd'][(k // (len(DIST_X) * len(DIST_D))) % 2]
    sc = {'x': list(x), 'dir': d, 'D': D, 'filler': ['comp', 'li', 'mix', 'call'][(k // 7) % 4], 'compress': True, 'pre': 1 + k % 3}
    gap = 0
    sign = 1 if d == 'fwd' else -1
    items = None
    for _ in range(4):
        items, X = c03.build_sweep(sc, gap)
        ex, dist = c03.measure(asm, items, X, True)
        if dist is None:
            break
        delta = D - sign * dist
        if delta == 0 or gap + delta < 0 or (gap + delta) % 2:
            break
        gap += delta
    return items


def abs_target_program(rng):
    """a transfer to an absolute address (a constant in the target position) next to an RVC / near-call reach edge as seen from the
    pessimistic position of the transfer.  The 32-bit form reaches the address from every position between 0 and that one, so however
    much the code in front shrinks under -c there is an encoding: a refusal under -c is a decision taken too early, not a necessity"""
    pre = [{'k': 'label', 'name': 'S'}] + movers(rng, rng.randint(1, 10))
    pess = sum(randprog.pess_size(it) for it in pre)
    kind = rng.choice(['jal1', 'jal0', 'j', 'jalp', 'beq', 'bne', 'beqz', 'bnez', 'call', 'tail'])
    edge = {'beq': 254, 'bne': 254, 'beqz': 254, 'bnez': 254, 'call': (1 << 20) - 2, 'tail': (1 << 20) - 2}.get(kind, 2046)
    T = pess + edge + rng.choice([-6, -4, -2, 0, 2, 4, 6, 8, 12, 16, 24, 40])
    r = {'r': rng.randrange(8, 16)}
    t = {'t': 'TABS'}
    x = {'jal1': {'k': 'inst', 'm': 'jal', 'ops': [{'r': 1}, t]}, 'jal0': {'k': 'inst', 'm': 'jal', 'ops': [{'r': 0}, t]},
         'j': {'k': 'pseudo', 'm': 'j', 'ops': [t]}, 'jalp': {'k': 'pseudo', 'm': 'jal', 'ops': [t]},
         'beq': {'k': 'inst', 'm': 'beq', 'ops': [r, {'r': 0}, t]}, 'bne': {'k': 'inst', 'm': 'bne', 'ops': [r, {'r': 0}, t]},
         'beqz': {'k': 'pseudo', 'm': 'beqz', 'ops': [r, t]}, 'bnez': {'k': 'pseudo', 'm': 'bnez', 'ops': [r, t]},
         'call': {'k': 'pseudo', 'm': 'call', 'ops': [t]}, 'tail': {'k': 'pseudo', 'm': 'tail', 'ops': [t]}}[kind]
    return [{'k': 'const', 'name': 'TABS', 'value': T, 'text': rng.choice([str, hex])(T)}] + pre + [x, {'k': 'pseudo', 'm': 'ret', 'ops': []}]


PIN_X = ['beq', 'bne', 'blt', 'bgeu', 'jal0', 'jal1', 'j', 'beqz', 'bnez', 'diff', 'c.beqz', 'c.bnez', 'c.j', 'c.jal']
PIN_P = ['align4', 'align8', 'align16', 'align32', 'const', 'ext']
PIN_S = [{'k': 'inst', 'm': 'addi', 'ops': [{'r': 8}, {'r': 8}, {'i': 1}]}, {'k': 'pseudo', 'm': 'li', 'ops': [{'r': 9}, {'i': 5}]},
         {'k': 'inst', 'm': 'and', 'ops': [{'r': 8}, {'r': 8}, {'r': 9}]}, {'k': 'pseudo', 'm': 'mv', 'ops': [{'r': 10}, {'r': 11}]},
         {'k': 'inst', 'm': 'lw', 'ops': [{'r': 8}, {'r': 2}, {'i': 8}]}]


def pinned_program(case):
    """KNOWN FINDING `pinned-target` (DESIGN.md section 7): a transfer (or a label difference) at the very edge of what its 32-bit
    encoding holds, whose far end does not move when the code shrinks - it sits behind an `align`, or it is an absolute address (a
    constant or a caller-supplied symbol) - and ONE compressible instruction in front of it.  Without -c the operand is exactly the
    largest representable value; with -c the near end moves 2 bytes towards the start, the far end stays, the operand grows by 2.
    -> {'items', 'ext', 'user': index of the item whose operand grows, 'grows': what the layout arithmetic below predicts}"""
    k = case['idx']
    x = PIN_X[k % len(PIN_X)]
    pin = PIN_P[(k // len(PIN_X)) % len(PIN_P)]
    shr = PIN_S[(k // (len(PIN_X) * len(PIN_P))) % len(PIN_S)]
    lead = (k // 7) % 3                                        # incompressible instructions in front (each 4 bytes in both modes)
    reach = {'jal0': (1 << 20) - 2, 'jal1': (1 << 20) - 2, 'j': (1 << 20) - 2, 'diff': 2046, 'c.beqz': 254, 'c.bnez': 254, 'c.j': 2046, 'c.jal': 2046}.get(x, 4094)
    xsize = 2 if x.startswith('c.') else 4           # hand-written compressed transfers are 2 bytes in both modes
    n = {'align4': 4, 'align8': 8, 'align16': 16, 'align32': 32}.get(pin)
    keep = {'k': 'inst', 'm': 'lui', 'ops': [{'r': 5}, {'i': 0x12345}]}      # never compressed: the immediate is outside c.lui
    t = {'t': 'T'}
    r = {'r': 8 + k % 8}
    xfer = {'beq': {'k': 'inst', 'm': 'beq', 'ops': [r, {'r': 0}, t]}, 'bne': {'k': 'inst', 'm': 'bne', 'ops': [r, {'r': 5}, t]},
            'blt': {'k': 'inst', 'm': 'blt', 'ops': [r, {'r': 6}, t]}, 'bgeu': {'k': 'inst', 'm': 'bgeu', 'ops': [r, {'r': 0}, t]},
            'jal0': {'k': 'inst', 'm': 'jal', 'ops': [{'r': 0}, t]}, 'jal1': {'k': 'inst', 'm': 'jal', 'ops': [{'r': 1}, t]},
            'j': {'k': 'pseudo', 'm': 'j', 'ops': [t]}, 'beqz': {'k': 'pseudo', 'm': 'beqz', 'ops': [r, t]},
            'bnez': {'k': 'pseudo', 'm': 'bnez', 'ops': [r, t]},
            'diff': {'k': 'inst', 'm': 'addi', 'ops': [{'r': 5}, {'r': 6}, {'diff': ['T', 'M']}]},
            'c.beqz': {'k': 'raw', 'text': 'c.beqz x%d, T' % (8 + k % 8)}, 'c.bnez': {'k': 'raw', 'text': 'c.bnez x%d, T' % (8 + k % 8)},
            'c.j': {'k': 'raw', 'text': 'c.j T'}, 'c.jal': {'k': 'raw', 'text': 'c.jal T'}}[x]
    if x == 'diff' and n is None:
        pin, n = 'align8', 8                                      # a label difference has no absolute far end
    head = [dict(keep) for _ in range(lead)] + [dict(shr)]
    at = 4 * lead + 4                                             # offset of the near end (the transfer, or M) without -c
    if x == 'diff':
        # M is the near end; the user of the difference sits behind T so that nothing between M and T depends on it
        head += [{'k': 'label', 'name': 'M'}, dict(keep)]
    else:
        head += [xfer]
    far = at + reach
    if n is None:
        items = head + [dict(keep), {'k': 'pseudo', 'm': 'ret', 'ops': []}]
        if pin == 'const':
            items.insert(0, {'k': 'const', 'name': 'T', 'value': far, 'text': str(far)})
        return {'items': items, 'ext': {'T': far} if pin == 'ext' else None, 'user': items.index(xfer), 'grows': 2, 'sub': x + '/' + pin}
    # behind an align: fill so that T = far, which must be a multiple of n
    while far % n:
        head.insert(0, {'k': 'raw', 'text': 'c.nop'})
        at += 2
        far += 2
    pad = (k // 11) % 2 * 2                                       # the align pads 0 or 2 bytes without -c
    fill = far - pad - (at + (4 if x == 'diff' else xsize))
    items = head + [{'k': 'gap', 'n': fill}, {'k': 'align', 'n': n}, {'k': 'label', 'name': 'T'}, {'k': 'pseudo', 'm': 'nop', 'ops': []}]
    if x == 'diff':
        items.append(xfer)
    end_c = far - pad - 2                                         # where the fill ends once the one compressible instruction is 2 bytes
    far_c = -(-end_c // n) * n
    return {'items': items, 'ext': None, 'user': items.index(xfer), 'grows': (far_c - (at - 2)) - reach, 'sub': x + '/' + pin}


ODD_X = [('j', 2), ('jal', 2), ('call', 2), ('tail', 2), ('beqz x8,', 2), ('bnez x9,', 2), ('jal x0,', 2), ('beq x8, x0,', 2)]
ODD_T = [(['db 1'], 1, [3]), (['db 1'], 1, [3, 3]), (['db 1'], 1, [3, 5]), (['bytes 1 2 3'], 3, [5]), (['db 7', 'db 8', 'db 9'], 3, [5]),
         (['string abcde'], 5, [6])]


def oddpin_program(case):
    """second shape of the same finding: behind odd-sized data an odd `align` happens to put the target on an even address in the
    uncompressed layout; when the transfer in front is compressed the target lands on an odd one."""
    k = case['idx']
    x, csize = ODD_X[k % len(ODD_X)]
    data, dlen, aligns = ODD_T[(k // len(ODD_X)) % len(ODD_T)]
    lines = ['%s L' % x] + data + ['align %d' % a for a in aligns] + ['L:']

    def lay(first):
        p = first + dlen
        for a in aligns:
            p = -(-p // a) * a
        return p
    return {'items': [{'k': 'raw', 'text': ln} for ln in lines], 'ext': None, 'user': 0,
            'grows': 1 if lay(csize) % 2 else 0, 'sub': x.split()[0] + '/odd-align'}


def make(case, asm=None):
    rng = random.Random('c12-%s-%d-%d' % (case['kind'], case['seed'], case['idx']))
    if case['kind'] == 'dist':
        return dist_program(asm, case)
    if case['kind'] == 'pinned':
        return pinned_program(case)['items']
    if case['kind'] == 'oddpin':
        return oddpin_program(case)['items']
    if case['kind'] == 'edge':
        items = edge_program(rng)
        if rng.random() < 0.3:
            items = randprog.constify(rng, items, 0.3)
    elif case['kind'] == 'shift':
        items = shift_const_program(rng)
    elif case['kind'] == 'abs':
        items = abs_target_program(rng)
    else:
        items = randprog.gen(rng, CFGS[case['idx'] % len(CFGS)])
        items = randprog.constify(rng, items, rng.choice([0.15, 0.4, 0.7]))
    return items


def interesting(items):
    for it in items:
        ops = it.get('ops') or ([it['val']] if 'val' in it else [])
        for o in ops:
            if isinstance(o, dict) and ('c' in o or 'cr' in o or P.label_dependent(o)):
                return True
        if it['k'] == 'gap' and it['n'] >= (1 << 20):
            return True
        if it['k'] == 'label' and it['name'] == 'T':
            return True
    return False


def run_pinned(asm, acc, case):
    """the family of the known finding `pinned-target`: a refusal under -c is only attributed to it if the layout arithmetic of the
    generator predicts that the operand leaves its range and the refusal names the line that holds that operand"""
    pp = pinned_program(case) if case['kind'] == 'pinned' else oddpin_program(case)
    lines = P.render(pp['items'])
    src = '\n'.join(lines) + '\n'
    acc['n'] += 1
    mk = lambda: None if pp['ext'] is None else {'labels': dict(pp['ext'])}  # noqa
    u = monitors.observe(asm, src, False, tap=False, preseed=mk())
    if not u.ok:
        acc['ctr']['refused_uncompressed'] += 1
        acc['ctr']['pinned_refused_uncompressed'] += 1
        return
    acc['ctr']['accepted_uncompressed'] += 1
    acc['ntkeys'].add(core.ckey(src))
    core.see(acc, 'pinned_shapes', pp['sub'])
    c = monitors.observe(asm, src, True, tap=False, preseed=mk())
    if c.ok:
        acc['ctr']['accepted_both'] += 1
        acc['ctr']['pinned_accepted_with_compression' if pp['grows'] > 0 else 'pinned_no_growth_accepted'] += 1
        if len(c.out) < len(u.out):
            acc['ctr']['compression_happened'] += 1
        return
    where = c.exc.get('number')
    predicted = pp['grows'] > 0 and c.exc['type'] == 'AssemblerError' and where == pp['user'] + 1
    acc['ctr']['pinned_refused_with_compression_as_predicted' if predicted else 'pinned_refused_with_compression_otherwise'] += 1
    core.add_viol(acc, 'program assembles without compression (%d bytes) but fails with it: %s: %s (line %s: %r)%s' % (
        len(u.out), c.exc['type'], c.exc['msg'], where, lines[where - 1][:60] if where and 0 < where <= len(lines) else None,
        ' [far end pinned by %s, operand grows by %d]' % (pp['sub'], pp['grows']) if predicted else ''),
        case, {'lines': [ln[:100] for ln in lines[:12]]}, key='pinned-target' if predicted else None)


# labels whose spelling Python would read as something about a *constant* of the program (an attribute of it, its NFKC twin): the label is
# what the line names (F44), also for the pass that decides what may be compressed
PY_PAIRS = [('SCALE', 'SCALE.numerator'), ('N', 'N.real'), ('no', 'n\u00ba'), ('A', '\uff21'), ('K', 'K.imag'), ('tab', 'tab.denominator'), ('fix', '\ufb01x'),
            ('BASE', 'BASE.real'), ('DEBUG', '__debug__')]         # (`__debug__` is a name Python evaluates without looking it up)
PY_SHAPES = [
    ['lw a0, {L}(s1)', 'slli a0, a0, 2', 'ret', '{L}:', 'dw 3'],
    ['align 0x800', '{L}:', 'li s0, {L}'],
    ['lw x8, {L}(x9)', '{L}:', 'dw 0'],
    ['addi x8, x8, {L}', 'c.nop', 'addi x9, x9, 1', 'nop', 'nop', 'nop', 'nop', 'nop', 'nop', 'nop', '{L}:', 'dw 1'],
    ['c.nop', 'addi x9, x9, 1', 'lui x8, {L}', 'string ' + 'G' * 4090, '{L}:', 'dw 1'],
    ['sw x8, {L}(x9)', 'add x8, x8, x9', 'db 1', 'db 2', '{L}:', 'dw 1'],
    ['andi x8, x8, {L}', 'mv x8, x9', 'string ' + 'G' * 28, '{L}:'],
    ['c.nop', 'mv x8, x9', 'slli x8, x8, {L}', 'string ' + 'G' * 24, '{L}:'],
]


def run_pyname(asm, acc, case):
    cname, lname = PY_PAIRS[case['idx'] % len(PY_PAIRS)]
    shape = PY_SHAPES[case['idx'] // len(PY_PAIRS) % len(PY_SHAPES)]
    value = [0, 1, 3, 4][case['idx'] // (len(PY_PAIRS) * len(PY_SHAPES)) % 4]
    lines = ['%s = %d' % (cname, value)] + [l.replace('{L}', lname) for l in shape]
    src = '\n'.join(lines) + '\n'
    acc['n'] += 1
    u = monitors.observe(asm, src, False, tap=False)
    if not u.ok:
        acc['ctr']['refused_uncompressed'] += 1
        acc['ctr']['pyname_refused_uncompressed'] += 1
        return
    acc['ctr']['accepted_uncompressed'] += 1
    acc['ntkeys'].add(core.ckey(src))
    c = monitors.observe(asm, src, True, tap=False)
    if c.ok:
        acc['ctr']['accepted_both'] += 1
        acc['ctr']['pyname_accepted_both'] += 1
        if len(c.out) < len(u.out):
            acc['ctr']['compression_happened'] += 1
    else:
        core.add_viol(acc, 'program assembles without compression (%d bytes) but fails with it: %s: %s (line %s: %r)' % (
            len(u.out), c.exc['type'], c.exc['msg'], c.exc.get('number'), lines[c.exc['number'] - 1] if c.exc.get('number') and 0 < c.exc['number'] <= len(lines) else None),
            case, {'lines': [l[:60] for l in lines]})


# instructions whose operand sits on an edge of an RVC operand set, the operand written as a derived quantity (`ROM_BASE >> 12`, `SIZE - 1`,
# `FLAGS ^ 8`): whatever the compression pass does with the operand text, the program still assembles
def spelled_program(rng):
    from ..gen import exprs
    near = lambda xs: rng.choice(xs) + rng.choice([0, 0, 0, 1, -1])       # noqa
    lines = []
    for _ in range(rng.randint(3, 8)):
        k = rng.randrange(11)
        r8 = 'x%d' % rng.randrange(8, 16)
        rd = 'x%d' % rng.choice([1, 3, 5, 8, 9, 15, 31])
        if k == 0:
            v = rng.choice([1, 2, 31, 32, 33, 0x1f, 0xfffe0, 0xfffe1, 0xfffff, 0xfffdf, 0xffffe, 0x80000, 0x7ffff, 0x12345])
            m, ops, v = 'lui', [rd], v
        elif k == 1:
            v = max(-2048, min(2047, near([-33, -32, -1, 1, 31, 32, 2047, -2048])))
            m, ops = 'addi', [rd, rd]
        elif k == 2:
            v = max(-2048, min(2047, near([-33, -32, 0, 31, 32])))
            m, ops = 'addi', [rd, 'x0']
        elif k == 3:
            v = max(-2048, min(2047, rng.choice([-528, -512, -16, 16, 496, 512, 8, 2032])))
            m, ops = 'addi', ['x2', 'x2']
        elif k == 4:
            v = rng.choice([4, 8, 1020, 1024, 1016, 2, 0, 512])
            m, ops = 'addi', [r8, 'x2']
        elif k == 5:
            v = max(-2048, min(2047, near([-33, -32, 0, 31, 32])))
            m, ops = 'andi', [r8, r8]
        elif k == 6:
            v = rng.choice([1, 2, 15, 16, 30, 31])
            m, ops = rng.choice(['slli', 'srli', 'srai']), [r8, r8]
        elif k == 7:
            v = rng.choice([0, 4, 64, 120, 124, 128, 2, 2044])
            m, ops = rng.choice(['lw', 'sw']), [r8, 'x%d' % rng.randrange(8, 16)]
        elif k == 8:
            v = rng.choice([0, 4, 128, 248, 252, 256, 2044])
            m, ops = 'lw', [rd, 'x2']
        elif k == 9:
            v = rng.choice([0, 4, 128, 248, 252, 256, 2044])
            m, ops = 'sw', ['x2', rd]
        else:
            lines.append(rng.choice(['nop', 'c.nop', 'add x8, x8, x9', 'db 1', 'db 2', 'mv x5, x6']))
            continue
        if k == 6:
            # (a shift amount is a number or a name, not an expression)
            name = 'SH%d' % len(lines)
            named = rng.random() < 0.5
            if named:
                lines.insert(0, '%s = %s' % (name, exprs.spell_value(rng, v)))
            lines.append('%s %s, %s' % (m, ', '.join(ops), name if named else str(v)))
            continue
        txt = exprs.spell_value(rng, v)
        if rng.random() < 0.4:
            name = 'Q%d' % len(lines)
            half = rng.randrange(0, 8)
            lines.insert(0, '%s = %d' % (name, (v << half) if v >= 0 else v))
            txt = ('%s >> %d' % (name, half)) if v >= 0 else rng.choice(['%s | 0' % name, '%s + 0' % name, '0 ^ %s' % name])
        lines.append('%s %s, %s' % (m, ', '.join(ops), txt))
    return lines


def run_spelled(asm, acc, case):
    rng = random.Random('c12-spelled-%d-%d' % (case['seed'], case['idx']))
    lines = spelled_program(rng)
    src = '\n'.join(lines) + '\n'
    acc['n'] += 1
    u = monitors.observe(asm, src, False, tap=False)
    if not u.ok:
        acc['ctr']['refused_uncompressed'] += 1
        acc['ctr']['spelled_refused_uncompressed'] += 1
        return
    acc['ctr']['accepted_uncompressed'] += 1
    acc['ntkeys'].add(core.ckey(src))
    c = monitors.observe(asm, src, True, tap=False)
    if c.ok:
        acc['ctr']['accepted_both'] += 1
        if len(c.out) < len(u.out):
            acc['ctr']['compression_happened'] += 1
            acc['ctr']['spelled_programs_that_shrank'] += 1
    else:
        core.add_viol(acc, 'program assembles without compression (%d bytes) but fails with it: %s: %s (line %s: %r)' % (
            len(u.out), c.exc['type'], c.exc['msg'], c.exc.get('number'), lines[c.exc['number'] - 1] if c.exc.get('number') and 0 < c.exc['number'] <= len(lines) else None),
            case, {'lines': lines})
    if case['idx'] % 101 == 0:
        core.add_sample(acc, {'kind': 'spelled', 'program': lines[:10], 'uncompressed_bytes': len(u.out), 'compressed': len(c.out) if c.ok else c.exc})


def run_case(asm, acc, case):
    if case['kind'] in ('pinned', 'oddpin'):
        return run_pinned(asm, acc, case)
    if case['kind'] == 'spelled':
        return run_spelled(asm, acc, case)
    if case['kind'] == 'pyname':
        return run_pyname(asm, acc, case)
    items = make(case, asm)
    lines = P.render(items)
    src = '\n'.join(lines) + '\n'
    acc['n'] += 1
    preseed = None
    if case['idx'] % 4 == 3:
        # the caller's label table is left over from an earlier build: this program's own names, stale values, another order
        names = [it['name'] for it in items if it['k'] == 'label']
        prng = random.Random('c12-pre-%d' % case['idx'])
        prng.shuffle(names)
        preseed = {'labels': {n: 2 * prng.randrange(0, 3000) for n in names}}
        acc['ctr']['builds_with_leftover_label_table'] += 1
    if case['kind'] == 'abs' and case['idx'] % 2:
        # the absolute address comes in through the caller's label table (an external symbol) instead of a constant
        ext = {it['name']: it['value'] for it in items if it['k'] == 'const' and it['name'] == 'TABS'}
        items = [it for it in items if not (it['k'] == 'const' and it['name'] == 'TABS')]
        lines = P.render(items)
        src = '\n'.join(lines) + '\n'
        preseed = {'labels': dict((preseed or {}).get('labels', {}), **ext)}
        acc['ctr']['builds_with_an_external_target'] += 1
    mk = lambda: None if preseed is None else {'labels': dict(preseed['labels'])}  # noqa
    u = monitors.observe(asm, src, False, tap=False, preseed=mk())
    if not u.ok:
        acc['ctr']['refused_uncompressed'] += 1
        acc['ctr']['refused_u:' + u.exc['type']] += 1
        return
    acc['ctr']['accepted_uncompressed'] += 1
    if interesting(items):
        acc['ntkeys'].add(core.ckey(src))
    c = monitors.observe(asm, src, True, tap=False, preseed=mk())
    if c.ok:
        acc['ctr']['accepted_both'] += 1
        if len(c.out) < len(u.out):
            acc['ctr']['compression_happened'] += 1
    else:
        core.add_viol(acc, 'program assembles without compression (%d bytes) but fails with it: %s: %s (line %s: %r)' % (
            len(u.out), c.exc['type'], c.exc['msg'], c.exc.get('number'), lines[c.exc['number'] - 1] if c.exc.get('number') and 0 < c.exc['number'] <= len(lines) else None),
            case, {'lines': lines[:80]}, key=classify_exc(c.exc))
    if case['idx'] % 101 == 0:
        core.add_sample(acc, {'kind': case['kind'], 'program': lines[:10], 'uncompressed_bytes': len(u.out), 'compressed': len(c.out) if c.ok else c.exc})


def classify_exc(exc):
    return None


def run_shard(sh, deadline):
    asm = core.load_asm()
    acc = core.new_acc()
    for case in sh['cases']:
        run_case(asm, acc, case)
        core.see(acc, 'families', case['kind'])
        if time.time() > deadline:
            acc['truncated'] += 1
            break
    return acc


def plan(tier, seed):
    n = ({'rand': 3000, 'edge': 2500, 'shift': 500, 'dist': 1200, 'abs': 1500, 'pinned': 420, 'oddpin': 48, 'pyname': 288, 'spelled': 1500} if tier == 'quick' else
         {'rand': 120000, 'edge': 70000, 'shift': 10000, 'dist': 24000, 'abs': 60000, 'pinned': 2520, 'oddpin': 48, 'pyname': 288, 'spelled': 60000})
    cases = [{'kind': k, 'seed': seed, 'idx': i} for k, cnt in n.items() for i in range(cnt)]
    nsh = 64 if tier == 'quick' else 512
    shards = [{'cases': cases[i::nsh]} for i in range(nsh)]
    return {'shards': shards, 'budget_s': 300 if tier == 'quick' else 3000}


def gates(acc, tier):
    g = []
    if acc['ctr']['accepted_uncompressed'] < 0.6 * acc['n']:
        g.append('only %d of %d generated programs assemble without compression' % (acc['ctr']['accepted_uncompressed'], acc['n']))
    if acc['ctr']['compression_happened'] == 0 and not acc['nviol']:
        g.append('compression never shortened a program: the compress flag had no observable effect')
    if len(acc['seen'].get('families', ())) < 5:
        g.append('program families missing')
    return g


def replay(case):
    asm = core.load_asm()
    acc = core.new_acc()
    run_case(asm, acc, case)
    return acc
