"""C06 - unrepresentable operands are refused, representable ones accepted.  DESIGN.md section 4 / C06.

Oracle: refmodel/operands.py (three-valued: must-accept / must-reject / unspecified).  Observed at the
encoder boundary (exception vs return value of INSTRUCTIONS[m](*operands)) and at the assemble() boundary
(one-line programs: exception and no bytes vs bytes).
"""
import itertools
import random
import time

from .. import core, monitors
from ..refmodel import rv, operands

ID = 'C06'
LEVEL = 'exploration'
RULE = ('all 93 mnemonics; per operand position a probe set reaching far beyond both ends of the legal interval at every '
        'residue ([min-4096,min+4096] u [max-4096,max+4096] u [-4096,4096] u +-2^k+-{0,1,2} up to 2^40 u strided interior), '
        'registers -1..40 as numbers, names, aliases, hex strings and junk names; the other operands held at several legal '
        'representatives; register positions also varied jointly.  A case is one encoder call or one one-line program; it is '
        'non-trivial when the reference operand model gives a definite verdict (must-accept or must-reject) for it; distinct by '
        'a set of (mnemonic, operand tuple).')
ASSUMPTIONS = ['legal operand sets as in the RISC-V unprivileged spec and docs/instruction_reference.rst; where the docs are silent '
               '(CSR numbers >= 0x800 or negative, the 0x80000-0xfffff spelling of lui/auipc/c.lui, register names used as shift '
               'amounts) either outcome is accepted but an accepted word must decode to the value modulo the field']

ALL = operands.BASE + operands.RVC
REG_INTS = list(range(-1, 41))
REG_STRS = ['x0', 'x1', 'x2', 'x7', 'x8', 'x15', 'x16', 'x31', 'x32', 'x-1', 'x', 'zero', 'ra', 'sp', 'gp', 'tp', 't0', 't2', 's0',
            'fp', 's1', 'a0', 'a5', 'a6', 'a7', 's2', 's11', 't3', 't6', 't7', 's12', 'a8', 'foo', 'r1', 'pc', '0', '8', '15', '31', '32',
            '-1', '0x8', '0xf', '0x1f', '0x20', 'x1x', '']


def imm_bounds(m, kind):
    if isinstance(kind, tuple):
        return kind[1], kind[2], kind[3]
    if kind in ('shamt', 'nzshamt', 'uimm5'):
        return 0, 31, 1
    if kind == 'csr':
        return -0x800, 0xfff, 1
    if kind == 'upper':
        return -0x80000, 0xfffff, 1
    if kind == 'cupper':
        return -32, 31, 1
    if kind in ('succ', 'pred'):
        return 0, 15, 1
    return None


def imm_probes(m, kind, tier, rng):
    lo, hi, scale = imm_bounds(m, kind)
    s = set(range(lo - 4096, lo + 4097)) | set(range(hi - 4096, hi + 4097)) | set(range(-4096, 4097))
    for k in range(41):
        for d in (-2, -1, 0, 1, 2):
            s.add((1 << k) + d)
            s.add(-(1 << k) + d)
    # values far outside that are congruent to legal ones modulo a word or field size (a wrap somewhere turns them into legal ones)
    for v in (lo, hi, 0, 1, -1, scale, 7 * scale if lo <= 7 * scale <= hi else lo, (lo + hi) // 2 // scale * scale):
        for w in (12, 13, 16, 20, 21, 31, 32, 33, 64):
            s.add(v + (1 << w))
            s.add(v - (1 << w))
            s.add(v + 3 * (1 << w))
    if kind == 'upper':
        s |= set(range(0x7ffff - 64, 0x80000 + 64))
    if kind == 'cupper':
        s |= set(range(0xfffe0 - 64, 0x100000 + 64))
    span = hi - lo
    if span > 10000:
        step = max(1, span // (4000 if tier == 'quick' else 40000))
        s |= set(range(lo, hi, step)) | set(range(lo + 1, hi, step * 3 + 1))
        for _ in range(500 if tier == 'quick' else 5000):
            s.add(rng.randrange(lo, hi + 1))
    return sorted(s)


def reps(m, kind, pos):
    """a few legal representatives for an operand position"""
    if isinstance(kind, tuple):
        _, lo, hi, scale, nz = kind
        vals = [lo, hi - (hi % scale), scale * 3 if lo <= scale * 3 <= hi else lo]
        return [v for v in vals if not (nz and v == 0)][:3]
    if kind in ('shamt', 'uimm5'):
        return [0, 31, 5]
    if kind == 'nzshamt':
        return [1, 31, 5]
    if kind == 'csr':
        return [0, 0x7ff, 0x300]
    if kind == 'upper':
        return [0, -0x80000, 0x7ffff]
    if kind == 'cupper':
        return [1, -32, 31]
    if kind in ('succ', 'pred'):
        return [0, 15, 5]
    if kind.endswith("'"):
        return [8, 15, 12]
    if kind.endswith('!02'):
        return [1, 31, 3]
    if kind.endswith('!0'):
        return [1, 31, 2]
    return [0, 31, 2]


def is_reg_kind(kind):
    return not isinstance(kind, tuple) and kind not in ('shamt', 'nzshamt', 'uimm5', 'csr', 'upper', 'cupper', 'succ', 'pred')


def judge(asm, acc, m, tup, kw, seen):
    key = (m, tuple(tup), tuple(sorted(kw.items())) if kw else None)
    if key in seen:
        return
    seen.add(key)
    acc['n'] += 1
    status, exp = operands.expected(m, tup, **(kw or {}))
    f = asm.INSTRUCTIONS[m]
    try:
        w = f(*tup, **(kw or {}))
        raised = None
    except ValueError as e:
        raised = e
    except Exception as e:  # noqa - refused, but not with the documented error kind (counted)
        raised = e
        acc['ctr']['refused_with_' + type(e).__name__] += 1
    if status != operands.UNSPEC:
        acc['nt'] += 1
    acc['ctr'][status] += 1
    case = {'kind': 'enc', 'm': m, 'args': list(tup), 'kw': kw or {}}
    if raised is not None:
        if status == operands.ACCEPT:
            core.add_viol(acc, 'representable operands refused: %s%r %s -> %s: %s' % (m, tuple(tup), kw or '', type(raised).__name__, raised), case, {})
        else:
            acc['ctr']['refused'] += 1
        return
    acc['ctr']['accepted'] += 1
    if status == operands.REJECT:
        dec = monitors.decode_any(m, w)
        core.add_viol(acc, 'unrepresentable operands accepted: %s%r %s -> %s (decodes to %r)' % (
            m, tuple(tup), kw or '', hex(w) if isinstance(w, int) else repr(w), dec), case, {'word': w, 'decoded': dec})
        return
    dec = monitors.decode_any(m, w)
    if dec != exp:
        core.add_viol(acc, 'accepted operands are not what the word carries: %s%r %s -> %s decodes to %r, named %r' % (
            m, tuple(tup), kw or '', hex(w) if isinstance(w, int) else repr(w), dec, exp), case, {'word': w, 'decoded': dec, 'expected': exp})


def enc_shard(asm, acc, m, tier, seed, deadline):
    rng = random.Random('c06-%s-%d' % (m, seed))
    fmt = operands.FORMATS[m]
    seen = set()
    core.see(acc, 'mnemonics', m)
    atomic = m in operands.ATOMICS
    kws = [None] if not atomic else [{'aq': 0, 'rl': 0}, {'aq': 1, 'rl': 1}]
    rep = [reps(m, k, i) for i, k in enumerate(fmt)]
    nrep = 2 if tier == 'quick' else 3
    if not fmt:
        judge(asm, acc, m, (), None, seen)
    # one operand at a time over its whole probe set, the others at legal representatives
    for pos, kind in enumerate(fmt):
        if is_reg_kind(kind):
            probes = REG_INTS + REG_STRS
        else:
            probes = imm_probes(m, kind, tier, rng)
            if kind in ('shamt', 'uimm5'):
                probes = probes + REG_STRS
            if kind in ('succ', 'pred'):
                probes = probes + ['0', '15', '16', '0b1111', '0x10', '-1']
        others = [rep[i][:nrep] if i != pos else [None] for i in range(len(fmt))]
        for combo in itertools.product(*others):
            for kw in kws:
                for v in probes:
                    tup = list(combo)
                    tup[pos] = v
                    judge(asm, acc, m, tup, kw, seen)
            if time.time() > deadline:
                acc['truncated'] += 1
                return
    # register positions jointly
    rpos = [i for i, k in enumerate(fmt) if is_reg_kind(k) or k in ('shamt', 'nzshamt', 'uimm5')]
    if len(rpos) >= 2:
        doms = [REG_INTS if i in rpos else rep[i][:1] for i in range(len(fmt))]
        for tup in itertools.product(*doms):
            judge(asm, acc, m, tup, kws[0], seen)
    # aq / rl domain
    if atomic:
        base = [r[0] for r in rep]
        for aq, rl in itertools.product([-1, 0, 1, 2, 3, '0', '1', '2', '0b1', '0x1'], repeat=2):
            judge(asm, acc, m, base, {'aq': aq, 'rl': rl}, seen)
    # random full tuples from the probe sets (interactions between positions)
    allp = []
    for pos, kind in enumerate(fmt):
        allp.append(REG_INTS if is_reg_kind(kind) else imm_probes(m, kind, 'quick', rng))
    if fmt:
        for _ in range(2000 if tier == 'quick' else 30000):
            judge(asm, acc, m, [rng.choice(p) for p in allp], kws[0], seen)


PCREL = {'beq', 'bne', 'blt', 'bge', 'bltu', 'bgeu', 'jal', 'c.jal', 'c.j', 'c.beqz', 'c.bnez'}


def prog_line(m, tup, kw, spell=0):
    ops = [str(a) for a in tup]
    if spell:
        # a register given by number may be written the way any number may: hex, binary, octal, upper-case prefix, a zero as 00
        for k, (kind, a) in enumerate(zip(operands.FORMATS[m], tup)):
            if is_reg_kind(kind) and isinstance(a, int) and not isinstance(a, bool) and 0 <= a <= 31:
                ops[k] = [hex(a), bin(a), oct(a), '0X%X' % a, '00' if a == 0 else '0x%02x' % a][(spell + k) % 5]
    if kw:
        ops += [str(kw['aq']), str(kw['rl'])]
    return m + (' ' + ', '.join(ops) if ops else '')


def judge_program(asm, acc, m, tup, kw, alias=False, spell=0):
    line = prog_line(m, tup, kw, spell)
    if spell:
        acc['ctr']['prog_with_register_numbers_in_other_bases'] += 1
    pre = ''
    skip = 0
    if alias:
        # legal register numbers / shift amounts named through constants (`Z = zero`, `SH = 0`): still the same operands
        ops = [str(a) for a in tup]
        for k, (kind, a) in enumerate(zip(operands.FORMATS[m], tup)):
            if (is_reg_kind(kind) or kind in ('shamt', 'uimm5')) and isinstance(a, int) and 0 <= a <= 31:
                pre += 'NM%d = %s\n' % (k, ['x%d' % a, operands.ABI[a], str(a), '%d - %d' % (a + 3, 3)][(a + k) % 4] if is_reg_kind(kind) else str(a))
                ops[k] = 'NM%d' % k
            elif m not in PCREL and isinstance(a, int) and (isinstance(kind, tuple) or kind in ('upper', 'cupper', 'nzshamt', 'shamt', 'uimm5')):
                # an absolute immediate given by name, any value (also unrepresentable ones)
                if (a + k) % 3 == 0:
                    pre += 'NV%d = %d\nNV%d = %d\n' % (k, a, k, a + 1)      # defined, redefined, and set back: the last definition counts
                pre += 'NV%d = %d\n' % (k, a)
                ops[k] = 'NV%d' % k
        # ... and not at address 0: a name in a non pc-relative position means its value wherever the instruction sits
        skip = 4 * ((sum(a for a in tup if isinstance(a, int)) + len(m)) % 4)
        # ... behind other kinds of instructions (atomics carry keyword operands, fence / csr have formats of their own)
        PRE = ['nop', 'lr.w x1, x2', 'amoadd.w x5, x6, x7 1 1', 'fence', 'csrrw x1, x2, 3', 'sc.w x1, x2, x3', 'ecall', 'lui x1, 5', 'amoswap.w x8, x9, x10']
        for j in range(skip // 4):
            pre += PRE[(j + len(m) + skip) % len(PRE)] + '\n'
        if (sum(a for a in tup if isinstance(a, int)) + len(m)) % 5 == 0:
            # ... directly behind a far call / tail (an auipc + jalr pair whose second half gets a position correction of its own)
            pre += 'FARFN_ = 0x20000000\n%s FARFN_\n' % ['call', 'tail'][len(m) % 2]
            skip += 8
        if kw:
            ops += [str(kw['aq']), str(kw['rl'])]
        line = m + (' ' + ', '.join(ops) if ops else '')
    acc['n'] += 1
    status, exp = operands.expected(m, tup, **(kw or {}))
    # (in alias mode the caller's label table also holds external symbols that are spelled like registers: in a register position a
    # register name is a register)
    ext = {'labels': {'x5': 0x20000000, 't0': 12, 's1': 9, 'a0': 0x100, 'fp': 3, 'zero': 5, 'ra': 40, 'x8': 31, 'sp': 0, '5': 12, '9': 3, '15': 0, '8': 9, '1': 2}} if alias else None
    o = monitors.observe(asm, pre + line, tap=False, preseed=ext)
    acc['ntkeys'].add(core.ckey('prog', line)) if status != operands.UNSPEC else None
    acc['ctr']['prog_' + status] += 1
    case = {'kind': 'prog', 'm': m, 'args': list(tup), 'kw': kw or {}, 'alias': alias, 'spell': spell}
    if not o.ok:
        if status == operands.ACCEPT:
            core.add_viol(acc, 'one-line program %r (representable operands) is refused: %s: %s' % ((pre + line).replace('\n', ' ; '), o.exc['type'], o.exc['msg']), case, {})
        return
    if status == operands.REJECT:
        core.add_viol(acc, 'one-line program %r (unrepresentable operands) produced output %s' % ((pre + line).replace('\n', ' ; '), o.out[skip:].hex()), case, {'out': o.out.hex()})
        return
    want = 2 if m.startswith('c.') else 4
    out = o.out[skip:]
    acc['ctr']['prog_not_at_address_0'] += bool(skip)
    dec = monitors.decode_any(m, int.from_bytes(out, 'little')) if len(out) == want else ('%d bytes' % len(out), out.hex())
    if dec != exp:
        core.add_viol(acc, 'one-line program %r -> %s decodes to %r, named %r' % ((pre + line).replace('\n', ' ; '), out.hex(), dec, exp), case, {})


def fractional_case(asm, acc, rng, m):
    """an immediate whose expression has a fractional value (`4095 / 2`, `31.5`) names no integer at all: no field represents it"""
    fmt = operands.FORMATS[m]
    pos = [k for k, kind in enumerate(fmt) if isinstance(kind, tuple) or kind in ('upper', 'cupper', 'nzshamt', 'shamt', 'uimm5')]
    if not pos:
        return
    tup = []
    for k, kind in enumerate(fmt):
        if is_reg_kind(kind):
            tup.append(8 + rng.randrange(8))
        elif k == pos[-1]:
            lo, hi, scale = imm_bounds(m, kind)
            n = rng.choice([2 * hi + 1, 2 * lo + 1, 2 * rng.randrange(lo, hi) + 1, 1, 3, 2 * (hi + 1) + 1])
            tup.append(rng.choice(['%d / 2' % n, '%d/2' % n, '%s' % (n / 2), '%d * 0.5' % n, '(%d + 0.25)' % (n // 2)]))
        else:
            lo, hi, scale = imm_bounds(m, kind)
            tup.append(max(lo, min(hi, 0)) // scale * scale or (scale if lo <= scale <= hi else lo))
    line = prog_line(m, tup, None)
    acc['n'] += 1
    acc['ctr']['prog_fractional'] += 1
    o = monitors.observe(asm, line, tap=False)
    if o.ok:
        core.add_viol(acc, 'one-line program %r (an operand with a fractional value) produced output %s' % (line, o.out.hex()),
                      {'kind': 'frac', 'line': line}, {'out': o.out.hex()})
    else:
        acc['ntkeys'].add(core.ckey('frac', line))


def prog_shard(asm, acc, sh, deadline):
    rng = random.Random('c06-prog-%d-%d' % (sh['seed'], sh['idx']))
    for k in range(sh['count']):
        m = ALL[(k + sh['idx']) % len(ALL)]
        fmt = operands.FORMATS[m]
        if k % 16 == 5 and m not in operands.ATOMICS:
            fractional_case(asm, acc, rng, m)
        tup = []
        for pos, kind in enumerate(fmt):
            if is_reg_kind(kind):
                r = rng.choice(REG_INTS[1:34] + [n for n in REG_STRS if n and ' ' not in n])
                tup.append(r)
            else:
                lo, hi, scale = imm_bounds(m, kind)
                c = rng.random()
                if c < 0.4:
                    v = rng.choice([lo, hi]) + rng.randrange(-3 * scale - 1, 3 * scale + 2)
                elif c < 0.7:
                    v = rng.randrange(lo, hi + 1)
                elif c < 0.8:
                    v = rng.randrange(lo, hi + 1) // scale * scale
                elif c < 0.9:
                    v = rng.choice([1, -1]) * ((1 << rng.randrange(0, 40)) + rng.randrange(-2, 3))
                else:
                    v = rng.randrange(lo, hi + 1) // scale * scale + rng.choice([1, -1, 3]) * (1 << rng.choice([32, 32, 33, 64, 16, 20]))
                tup.append(v)
        kw = None
        if m in operands.ATOMICS:
            kw = {'aq': rng.choice([0, 1, 0, 1, 2, -1]), 'rl': rng.choice([0, 1])}
        core.see(acc, 'mnemonics_prog', m)
        judge_program(asm, acc, m, tup, kw, alias=(k % 4 == 3 and all(not isinstance(a, str) for a in tup)), spell=(1 + k // 4 % 5) if k % 4 == 1 else 0)
        if k < 2:
            core.add_sample(acc, {'program': prog_line(m, tup, kw), 'model_says': operands.expected(m, tup, **(kw or {}))[0]})
        if time.time() > deadline:
            acc['truncated'] += 1
            break


DIST_KINDS = [('b', 'beq'), ('b', 'bltu'), ('bz', 'bne'), ('jal', 0), ('jal', 1), ('c', 'c.j'), ('c', 'c.jal'), ('c', 'c.beqz'), ('c', 'c.bnez')]
DIST_D = [250, 254, 256, 258, 2046, 2048, 2050, 4090, 4094, 4096, 4098, (1 << 20) - 2, 1 << 20, (1 << 20) + 2]


def dist_shard(asm, acc, sh, deadline):
    """pc-relative operands given as labels: a target whose final offset is representable must be accepted (also under -c, where
    the compressed form is chosen on label values that still move), an unrepresentable one refused"""
    from . import c03
    for case in sh['cases']:
        scratch = core.new_acc()
        c03.run_sweep_case(asm, scratch, dict(case))
        acc['n'] += 1
        x = tuple(case['x'])
        lo, hi = c03.reach(x)
        sign = 1 if case['dir'] == 'fwd' else -1
        reachable = lo <= sign * case['D'] <= hi
        cell = '%s:%s %s %d %s' % (x[0], x[1], case['dir'], case['D'], 'with -c' if case['compress'] else 'without -c')
        acc['ntkeys'].add(core.ckey('dist', cell, case['filler']))
        acc['ctr']['distance_cases'] += 1
        rcase = dict(case, kind='dist')
        if scratch['ctr']['refused_reachable']:
            why = sorted(scratch['seen'].get('refused_reachable_cells', ['?']))[0]
            core.add_viol(acc, 'representable pc-relative operand refused: %s (label exactly %d bytes %s): %s' % (
                cell, case['D'], 'ahead' if sign > 0 else 'behind', why.split(':', 2)[-1]), rcase, {})
        elif scratch['ctr']['sweep_assembled'] and not reachable:
            core.add_viol(acc, 'unrepresentable pc-relative operand accepted: %s' % cell, rcase, {})
        elif scratch['ctr']['sweep_assembled']:
            acc['ctr']['distance_accepted_ok'] += 1
        elif scratch['ctr']['refused_unreachable']:
            acc['ctr']['distance_refused_ok'] += 1
        if time.time() > deadline:
            acc['truncated'] += 1
            break


CT_M = [('beq', 'x5, x6, ', -4096, 4094), ('bgeu', 'x0, x0, ', -4096, 4094), ('jal', 'x1, ', -(1 << 20), (1 << 20) - 2), ('j', '', -(1 << 20), (1 << 20) - 2),
        ('beqz', 'x9, ', -4096, 4094), ('c.j', '', -2048, 2046), ('c.jal', '', -2048, 2046), ('c.beqz', 'x9, ', -256, 254), ('c.bnez', 'x8, ', -256, 254)]


def const_target_shard(asm, acc, sh, deadline):
    """a *name* in a branch / jump target position means a location: with a named constant the encoded offset is constant - pc.
    A location whose distance is not representable must be refused (never wrapped modulo 2^32), a representable one accepted."""
    rng = random.Random('c06-ct-%d' % sh['seed'])
    for m, regs, lo, hi in CT_M:
        probes = set()
        for base in (0, lo, hi, 1 << 31, -(1 << 31), 1 << 32, -(1 << 32), (1 << 32) + hi, (1 << 32) + lo, 0xfffffff8, 0x100000010, (1 << 33)):
            for d in (-4, -2, 0, 2, 4, 6, 16):
                probes.add(base + d)
        probes |= {rng.randrange(lo - 64, hi + 64) for _ in range(40)}
        for T in sorted(probes):
            npre = rng.randrange(0, 4)
            lines = ['TARGET_LOC = %d' % T] + ['addi x0, x0, 0'] * npre + ['%s %sTARGET_LOC' % (m, regs)]
            pos = 4 * npre
            off = T - pos
            legal = lo <= off <= hi and off % 2 == 0
            acc['n'] += 1
            o = monitors.observe(asm, '\n'.join(lines) + '\n', tap=False)
            acc['ntkeys'].add(core.ckey('ct', m, T, npre))
            acc['ctr']['const_target_cases'] += 1
            case = {'kind': 'ctarget', 'lines': lines, 'off': off, 'legal': legal, 'm': m}
            if o.ok and not legal:
                core.add_viol(acc, 'unrepresentable pc-relative distance accepted: `%s` at offset %d with TARGET_LOC = %d (distance %d) emitted %s' % (
                    lines[-1], pos, T, off, o.out[pos:].hex()), case, {})
            elif not o.ok and legal:
                core.add_viol(acc, 'representable pc-relative distance refused: `%s` at offset %d with TARGET_LOC = %d (distance %d): %s' % (
                    lines[-1], pos, T, off, o.exc['msg']), case, {})
            elif o.ok:
                parts = monitors.split_insns(o.out[pos:])
                size, enc = parts[0][1], parts[0][2]
                d = rv.decode32(enc) if size == 4 else rv.expand16(rv.decode16(enc)[1]) if rv.decode16(enc)[0] == 'legal' else None
                if not d or d.get('imm') != off:
                    core.add_viol(acc, '`%s` at offset %d with TARGET_LOC = %d emitted %s whose offset is %r, not %d' % (lines[-1], pos, T, o.out[pos:].hex(), d and d.get('imm'), off), case, {})
        if time.time() > deadline:
            acc['truncated'] += 1
            break


def run_shard(sh, deadline):
    asm = core.load_asm()
    acc = core.new_acc()
    if sh['kind'] == 'ctarget':
        const_target_shard(asm, acc, sh, deadline)
        if sh.get('first'):
            # "register outside the allowed set": the base register of an sp-relative access written as off(base) is sp and nothing else
            from . import c02
            c02.sp_base_cases(asm, acc)
        return acc
    if sh['kind'] == 'dist':
        dist_shard(asm, acc, sh, deadline)
        return acc
    if sh['kind'] == 'enc':
        enc_shard(asm, acc, sh['m'], sh['tier'], sh['seed'], deadline)
        core.add_sample(acc, {'encoder_probe': sh['m'], 'calls': acc['n'], 'must_accept': acc['ctr'][operands.ACCEPT],
                              'must_reject': acc['ctr'][operands.REJECT], 'unspecified': acc['ctr'][operands.UNSPEC]})
    else:
        prog_shard(asm, acc, sh, deadline)
    return acc


def plan(tier, seed):
    shards = [{'kind': 'enc', 'm': m, 'tier': tier, 'seed': seed} for m in ALL]
    shards.sort(key=lambda s: -len(operands.FORMATS[s['m']]))
    nprog = 16 if tier == 'quick' else 512
    per = 400 if tier == 'quick' else 1600
    shards += [{'kind': 'prog', 'idx': i, 'count': per, 'seed': seed} for i in range(nprog)]
    dcases = []
    # only fillers whose size does not depend on their own offset (no aligns): the final distance is then linear in the inert gap
    fillers = ['gap', 'comp', 'li', 'call'] if tier == 'thorough' else None
    for x in DIST_KINDS:
        for d in ('fwd', 'bwd'):
            for D in DIST_D:
                for compress in (False, True):
                    for f in (fillers or [['comp', 'gap', 'call', 'li'][(len(dcases) + seed) % 4]]):
                        dcases.append({'x': list(x), 'dir': d, 'D': D, 'filler': f, 'compress': compress, 'pre': 1 + len(dcases) % 3})
    dcases.sort(key=lambda c: c['D'])
    nd = 32
    shards += [{'kind': 'dist', 'cases': dcases[i::nd]} for i in range(nd)]
    shards += [{'kind': 'ctarget', 'seed': seed + i, 'first': i == 0} for i in range(2 if tier == 'quick' else 128)]
    return {'shards': shards, 'budget_s': 240 if tier == 'quick' else 1500, 'exhaustive': False}


def gates(acc, tier):
    g = []
    if len(acc['seen'].get('mnemonics', ())) != 93:
        g.append('encoder probes covered %d/93 mnemonics' % len(acc['seen'].get('mnemonics', ())))
    if len(acc['seen'].get('mnemonics_prog', ())) != 93:
        g.append('one-line programs covered %d/93 mnemonics' % len(acc['seen'].get('mnemonics_prog', ())))
    if acc['ctr'][operands.ACCEPT] == 0 or acc['ctr'][operands.REJECT] == 0:
        g.append('probe sets did not reach both sides of the legal sets')
    return g


def classify(v):
    return None


def replay(case):
    asm = core.load_asm()
    acc = core.new_acc()
    if case['kind'] == 'ctarget':
        o = monitors.observe(asm, '\n'.join(case['lines']) + '\n', tap=False)
        acc['n'] += 1
        if o.ok != case['legal']:
            core.add_viol(acc, 'pc-relative distance %d to a named location: accepted=%s, representable=%s (%s)' % (case['off'], o.ok, case['legal'], case['lines'][-1]), case, {})
    elif case['kind'] == 'dist':
        dist_shard(asm, acc, {'cases': [{k: v for k, v in case.items() if k != 'kind'}]}, time.time() + 600)
    elif case['kind'] == 'enc':
        judge(asm, acc, case['m'], case['args'], case.get('kw') or None, set())
    elif case['kind'] == 'spbase':
        from . import c02
        c02.sp_base_cases(asm, acc)
    elif case['kind'] == 'frac':
        acc['n'] += 1
        o = monitors.observe(asm, case['line'], tap=False)
        if o.ok:
            core.add_viol(acc, 'one-line program %r (an operand with a fractional value) produced output %s' % (case['line'], o.out.hex()), case, {})
    else:
        judge_program(asm, acc, case['m'], case['args'], case.get('kw') or None, alias=case.get('alias', False), spell=case.get('spell', 0))
    return acc
