"""C14 - include is textual splicing, independent of the working directory.  DESIGN.md section 4 / C14.

The harness generates an include tree on disk, flattens it itself by the *property's* rule (a file is looked up next
to the including file, else in an include directory) and compares the real assembler's result on the tree with its
result on the flat text - from several working directories, through the API and the CLI.
"""
import os
import random
import shutil
import tempfile
import time

from .. import core, monitors, cli
from ..gen import variants

ID = 'C14'
LEVEL = 'exploration'
RULE = ('generated include trees: depth up to 5, include line first / middle / last, included files in the same, a sub-, a parent/sibling and '
        '-i directories, the same file name in several directories (each reachable from exactly one includer), quoted include paths and '
        'include lines with trailing comments; labels and constants defined in one file and used in another.  Each tree is assembled with '
        'the API (absolute root path from 4 working directories incl. one holding decoy files of the same names, relative root path from 2) '
        'and the CLI (-i, from 2 working directories) with compression off and on; bytes, labels (and constants for the API) must equal the '
        'flattened program and not vary with the working directory.  One case = one (tree, cwd, entry point).  Non-trivial = nesting '
        'depth >= 2 or a working directory other than the root file\'s; distinct by (tree seed, cwd, via, compress).')
ASSUMPTIONS = ['trees never make a name reachable both adjacent and through -i (precedence is not part of the statement); no include cycles']


class Tree:
    pass


def gen_tree(rng, root):
    """-> Tree with .files {abs path: [lines]}, .main, .incdirs, .flat [lines], .names {basename used}"""
    t = Tree()
    t.files = {}
    t.incdirs = [os.path.join(root, n) for n in ['zz_inc0', 'aa_inc1'][:rng.randint(0, 2)]]       # search path order is not alphabetical order
    src = os.path.join(root, 'proj', 'src')
    dirs = {'same': src, 'sub': os.path.join(src, 'sub'), 'sib': os.path.join(root, 'proj', 'common')}
    t.main = os.path.join(src, 'main.asm')
    counter = [0]
    labels = []
    consts = []
    used_names = set()
    t.depth = 0
    t.double = False
    t.refs = []

    def body_lines(n):
        out = []
        for _ in range(n):
            c = rng.random()
            k = counter[0]
            counter[0] += 1
            if c > 0.9:
                # text beyond ASCII, in a comment or as data: every file of a program is read the same way
                out.append(rng.choice(['# d\u00e9p\u00f4t \u2013 \u00df', 'string gr\u00fc\u00dfe', '# \u4e2d\u6587', 'string \u20ac 5', 'nop  # \u00b5s']))
                continue
            if c < 0.2:
                consts.append('C%d' % k)
                out.append('C%d = %d' % (k, rng.randrange(0, 2000)))
            elif c < 0.4:
                labels.append('L%d' % k)
                out.append('L%d:' % k)
            elif c < 0.6 and consts:
                out.append('addi x%d, x%d, %s' % (rng.randrange(32), rng.randrange(32), rng.choice(consts)))
            elif c < 0.72 and labels:
                out.append(rng.choice(['j %s', 'beqz x8, %s', 'call %s', 'dw %s']) % rng.choice(labels))
            elif c < 0.85:
                out.append(rng.choice(['addi x8, x8, 1', 'li x5, 0x12345', 'add x9, x9, x10', 'lw x8, 4(x9)', 'nop', 'ret']))
            else:
                out.append(rng.choice(['bytes 1 2', 'shorts 0x1234', 'string ab', 'align 4', 'db 0x7f\nalign 2']))
        return out

    def make(path, depth):
        """create file `path`; returns its flattened lines"""
        t.depth = max(t.depth, depth)
        here = os.path.dirname(path)
        lines = []
        flat = []
        n_inc = rng.randint(1, 2) if depth < rng.randint(1, 5) and len(t.files) < 12 else 0
        pos = rng.choice(['first', 'mid', 'last']) if n_inc == 1 else 'mid'
        t.files[path] = lines       # reserve
        segs = [None] * (n_inc + 1)
        for i in range(n_inc):
            # definitions are generated in source order so that uses only refer to names defined earlier in the flattened text
            segs[i] = [] if (pos == 'first' and i == 0) else body_lines(rng.randint(0, 3))
            lines += segs[i]
            flat += segs[i]
            # where does the included file live?
            where = rng.choice(['same', 'sub', 'sib'] + (['inc'] if t.incdirs else []))
            in_incdir = any((os.path.normpath(here) + os.sep).startswith(os.path.normpath(d) + os.sep) for d in t.incdirs)
            if in_incdir and where == 'sib':
                where = 'same'
            if in_incdir and where == 'sub':
                name = 'lib%d.asm' % len(t.files)
                target = os.path.join(here, 'sub', name)
                written = 'sub/' + name
            elif where == 'inc' or (in_incdir and where == 'same'):
                # anything that physically lives in an include directory is visible to every includer: its name comes from
                # a separate pool and is globally unique, so no name is reachable both adjacent and through -i
                name = 'lib%d.asm' % len(t.files)
                bundled = [b for b in ('GD32VF103.asm', 'ST7735S.asm', 'FE310-G002.asm', 'ESP8266.asm') if b not in used_names]
                if bundled and where == 'inc' and rng.random() < 0.25:
                    # the project's own copy of a file that also ships with the assembler, in a directory given with -i: that is one of
                    # the two places the statement says F is found in; the bundled directory (--include-definitions) is not
                    name = rng.choice(bundled)
                d = here if in_incdir and where == 'same' else rng.choice(t.incdirs)
                target = os.path.join(d, name)
                written = name
            else:
                base = rng.choice(['defs', 'util', 'data', 'part', 'defs', 'util', 'rev=2_', 'a+b', 'x,y', 'cfg@1-', 'm\u00fcll', '0x10', 'include', 'string'])
                name = '%s%d.asm' % (base, rng.randrange(3))
                if where == 'same':
                    target = os.path.join(here, name)
                    written = name
                elif where == 'sub':
                    target = os.path.join(here, 'sub', name)
                    written = 'sub/' + name
                else:
                    target = os.path.join(dirs['sib'], name)
                    written = os.path.relpath(target, here)
                if os.path.normpath(target) in t.files:
                    name = 'u%d_%s' % (len(t.files), name)
                    target = os.path.join(os.path.dirname(target), name)
                    written = os.path.join(os.path.dirname(written), name) if os.path.dirname(written) else name
            target = os.path.normpath(target)
            used_names.add(os.path.basename(target))
            t.refs.append((written, target))
            style = rng.randrange(5)
            inc_line = {0: 'include %s', 1: 'include "%s"', 2: "include '%s'", 3: 'include %s  # pull it in (here)',
                        4: 'include %s' + rng.choice(['  ', ' ', '\t']) + rng.choice(variants.COMMENTS).replace('%', '%%')}[style] % written
            lines.append(inc_line)
            sub = make(target, depth + 1)
            flat += sub
            if rng.random() < 0.15:
                # the same file included once more (textual splicing: its lines appear again; a later definition of a label or
                # constant of the same name simply comes later in the flattened text as well)
                lines.append(inc_line)
                flat += sub
                t.double = True
        last = [] if pos == 'last' else body_lines(rng.randint(0 if n_inc else 1, 3))
        lines += last
        flat += last
        return flat

    t.flat = make(t.main, 0)
    t.names = used_names
    # every label/constant that was referenced must exist: references only use already-defined names, fine.
    return t


def write_decoys(t, root):
    """a search path is ordered: a file of the same name in a *later* -i directory is never the one that is spliced in; and a
    *directory* of that name in an earlier one is not an include file at all"""
    for k, (written, target) in enumerate(t.refs):
        for d in t.incdirs:
            cand = os.path.normpath(os.path.join(d, written))
            if cand == target:
                break                                   # the file itself is found here: nothing earlier may look like it
            if k % 2 == 0 and cand.startswith(os.path.normpath(root) + os.sep) and not os.path.lexists(cand) and cand not in t.files:
                os.makedirs(cand)                       # (never outside the scratch tree: `../..` names can point above an include directory)
    if len(t.incdirs) != 2:
        return 0
    n = 0
    first = os.path.normpath(t.incdirs[0])
    for path in list(t.files):
        if os.path.dirname(os.path.normpath(path)) == first:
            decoy = os.path.join(t.incdirs[1], os.path.basename(path))
            if os.path.normpath(decoy) not in [os.path.normpath(p) for p in t.files]:
                os.makedirs(t.incdirs[1], exist_ok=True)
                with open(decoy, 'w') as f:
                    f.write('addi x31, x31, 31\naddi x31, x31, 31\naddi x31, x31, 31\n')
                n += 1
    return n


def write_tree(t, root):
    for k, (path, lines) in enumerate(t.files.items()):
        os.makedirs(os.path.dirname(path), exist_ok=True)
        with open(path, 'w') as f:
            # text files as editors leave them: with or without a final newline, sometimes with blank lines at the top
            f.write(('\n' * (k % 3 == 1)) + '\n'.join(lines) + ('' if (k % 2 == 1 and lines) else '\n'))
    for d in t.incdirs:
        os.makedirs(d, exist_ok=True)
    decoy = os.path.join(root, 'decoy')
    os.makedirs(os.path.join(decoy, 'sub'), exist_ok=True)
    for name in t.names | {'main.asm'}:
        for d in (decoy, os.path.join(decoy, 'sub')):
            with open(os.path.join(d, name), 'w') as f:
                f.write('DECOY_%s = 1\nbytes 0xde 0xc0\n' % name.split('.')[0].replace('-', '_'))
    os.makedirs(os.path.join(root, 'empty'), exist_ok=True)
    return decoy


def run_tree(asm, acc, seed, idx, ncli):
    rng = random.Random('c14-%d-%d' % (seed, idx))
    root = tempfile.mkdtemp(prefix='bbv-c14-')
    old = os.getcwd()
    try:
        t = gen_tree(rng, root)
        decoy = write_tree(t, root)
        acc['ctr']['same_name_decoys_in_a_later_include_dir'] += write_decoys(t, root)
        flat_src = '\n'.join(t.flat) + '\n'
        srcdir = os.path.dirname(t.main)
        cwds = {'rootdir': srcdir, 'slash': '/', 'empty': os.path.join(root, 'empty'), 'decoy': decoy, 'ancestor': root}
        core.see(acc, 'tree_depths', t.depth)
        acc['ctr']['trees_with_a_repeated_include'] += 1 if t.double else 0
        acc['ctr']['files_in_trees'] += len(t.files)
        for compress in (False, True):
            os.chdir(old)
            ref = monitors.observe(asm, flat_src, compress, tap=False)
            if not ref.ok:
                acc['ctr']['flat_refused'] += 1
                continue
            runs = [('api', c) for c in ('rootdir', 'slash', 'empty', 'decoy', 'removed')] + [('api-rel', 'rootdir'), ('api-rel', 'ancestor')]
            for via, cw in runs:
                acc['n'] += 1
                if cw == 'removed':
                    # a working directory that no longer exists (the shell's directory was cleaned up under it): every path the
                    # program needs is absolute, and the flattened text assembles from here just the same (checked first)
                    gone = tempfile.mkdtemp(prefix='gone', dir=root)
                    os.chdir(gone)
                    os.rmdir(gone)
                    flatp = os.path.join(root, 'flat-%d.asm' % compress)
                    with open(flatp, 'w', encoding='utf-8') as f:
                        f.write(flat_src)
                    if not monitors.observe(asm, flatp, compress, tap=False).ok:
                        os.chdir(old)
                        acc['ctr']['flat_refused_in_removed_cwd'] += 1
                        continue
                else:
                    os.chdir(cwds[cw])
                path = t.main if via == 'api' else os.path.relpath(t.main, cwds[cw])
                o = monitors.observe(asm, path, compress, include_dirs=list(t.incdirs), tap=False)
                os.chdir(old)
                case = {'seed': seed, 'idx': idx}
                if t.depth >= 2 or cw != 'rootdir':
                    acc['ntkeys'].add(core.ckey(seed, idx, via, cw, compress))
                acc['ctr']['api_runs'] += 1
                core.see(acc, 'cells', '%s/%s' % (via, cw))
                desc = 'include tree (depth %d, %d files) via %s from cwd=%s, compress=%s' % (t.depth, len(t.files), via, cw, compress)
                if not o.ok:
                    core.add_viol(acc, '%s is refused (%s: %s) although the flattened program assembles' % (desc, o.exc['type'], o.exc['msg']), case,
                                  {'files': {os.path.relpath(p, root): l for p, l in t.files.items()}})
                elif o.out != ref.out:
                    core.add_viol(acc, '%s: bytes differ from the flattened program (%d vs %d bytes)' % (desc, len(o.out), len(ref.out)), case,
                                  {'files': {os.path.relpath(p, root): l for p, l in t.files.items()}})
                elif o.labels != ref.labels or o.constants != ref.constants:
                    core.add_viol(acc, '%s: labels/constants differ from the flattened program' % desc, case, {})
            for k in range(ncli):
                cw = ['decoy', 'empty', 'rootdir', 'slash'][(idx + k) % 4]
                acc['n'] += 1
                outp = os.path.join(root, 'out-%d.bin' % k)
                labp = os.path.join(root, 'lab-%d.txt' % k)
                args = [t.main if k % 2 == 0 or cw != 'rootdir' else 'main.asm', '-o', outp, '-l', labp] + (['-c'] if compress else [])
                if (idx + k) % 3 == 0:
                    args.append('--include-definitions')
                    acc['ctr']['cli_runs_with_bundled_definitions_on_the_path'] += 1
                for d in t.incdirs:
                    args += ['-i', d if k % 2 == 0 else os.path.relpath(d, cwds[cw])]
                if (idx + k) % 3 == 1:
                    args.append('--include-definitions')
                    acc['ctr']['cli_runs_with_bundled_definitions_on_the_path'] += 1
                env = None
                if (idx + k) % 2 == 1 and all(pth.isascii() for pth in list(t.files) + list(t.incdirs)) and all('include' not in ln or ln.isascii() for lns in t.files.values() for ln in lns):
                    # (trees with ASCII file names only: in such a process Python itself cannot name other files)
                    # the same command line in a process whose locale is not UTF-8: how a file is decoded does not depend on whether it is
                    # the main file or an included one
                    env = {'LC_ALL': 'C', 'LANG': 'C', 'PYTHONUTF8': '0', 'PYTHONCOERCECLOCALE': '0'}
                    acc['ctr']['cli_runs_under_the_C_locale'] += 1
                    if any(any(ord(ch) > 127 for ch in ln) for pth, lns in t.files.items() if pth != t.main for ln in lns):
                        acc['ctr']['cli_runs_under_the_C_locale_with_non_ascii_text_in_an_included_file'] += 1
                r = cli.run_cli(args, cwds[cw], extra_env=env)
                acc['ctr']['cli_runs'] += 1
                acc['ntkeys'].add(core.ckey(seed, idx, 'cli', cw, compress))
                core.see(acc, 'cells', 'cli/%s' % cw)
                desc = 'include tree (depth %d) via CLI from cwd=%s, compress=%s' % (t.depth, cw, compress)
                case = {'seed': seed, 'idx': idx}
                if r.returncode != 0:
                    core.add_viol(acc, '%s fails: %s' % (desc, r.stderr.strip()[-200:]), case, {})
                    continue
                got = open(outp, 'rb').read()
                labs = {}
                for ln in open(labp):
                    n, v = ln.split()
                    labs[n] = int(v, 16)
                if got != ref.out or labs != ref.labels:
                    core.add_viol(acc, '%s: output differs from the flattened program' % desc, case, {})
 
        # history: one included file changes on disk, the tree is assembled again by the same interpreter
        victims = [p for p in t.files if p != t.main]
        if victims:
            os.chdir(old)
            v = rng.choice(victims)
            marker = 'db 0x%02x' % rng.randrange(1, 255)
            t.files[v] = t.files[v] + [marker, 'align 2']
            with open(v, 'w') as f:
                f.write('\n'.join(t.files[v]) + '\n')
            # flatten again by the property's rule
            def flat(path):
                out = []
                for ln in t.files[path]:
                    if ln.startswith('include '):
                        name = ln.split('#')[0].split()[1].strip('"\'')
                        here = os.path.dirname(path)
                        cand = [os.path.normpath(os.path.join(here, name))] + [os.path.normpath(os.path.join(d, name)) for d in t.incdirs]
                        tgt = next(c for c in cand if c in t.files)
                        out += flat(tgt)
                    else:
                        out.append(ln)
                return out
            flat2 = flat(t.main)
            ref2 = monitors.observe(asm, '\n'.join(flat2) + '\n', False, tap=False)
            o2 = monitors.observe(asm, t.main, False, include_dirs=list(t.incdirs), tap=False)
            acc['n'] += 1
            acc['ctr']['rewrite_runs'] += 1
            if ref2.ok and (not o2.ok or o2.out != ref2.out or o2.labels != ref2.labels):
                core.add_viol(acc, 'include tree assembled again after %s was extended on disk: %s; the flattened program gives %d bytes' % (
                    os.path.relpath(v, root), ('%d bytes' % len(o2.out)) if o2.ok else o2.exc['msg'], len(ref2.out)), {'seed': seed, 'idx': idx}, {})
        if idx % 41 == 0:
            core.add_sample(acc, {'tree': {os.path.relpath(p, root): l[:6] for p, l in list(t.files.items())[:5]}, 'flattened_lines': len(t.flat),
                                  'include_dirs': [os.path.relpath(d, root) for d in t.incdirs]})
    finally:
        os.chdir(old)
        shutil.rmtree(root, ignore_errors=True)


def deep_chain(asm, acc, seed, idx, depth=60):
    """a chain of `depth` files, each contributes lines before and after its include; sub-directories alternate"""
    rng = random.Random('c14-deep-%d-%d' % (seed, idx))
    root = tempfile.mkdtemp(prefix='bbv-c14-')
    try:
        flat_head, flat_tail = [], []
        paths = []
        d = root
        for k in range(depth):
            if k % 7 == 3:
                d = os.path.join(d, 'n%d' % k)
            paths.append(os.path.join(d, 'f%d.asm' % k))
        for k, path in enumerate(paths):
            os.makedirs(os.path.dirname(path), exist_ok=True)
            head = ['D%d:' % k, 'addi x%d, x%d, %d' % (k % 32, (k + 1) % 32, k)]
            tail = ['dh D%d' % k, 'DK%d = %d' % (k, rng.randrange(100))]
            body = list(head)
            if k + 1 < depth:
                body.append('include %s' % os.path.relpath(paths[k + 1], os.path.dirname(path)))
            body += tail
            with open(path, 'w') as f:
                f.write('\n'.join(body) + '\n')
            flat_head += head
            flat_tail = tail + flat_tail
        flat = flat_head + flat_tail
        for compress in (False, True):
            acc['n'] += 1
            ref = monitors.observe(asm, '\n'.join(flat) + '\n', compress, tap=False)
            o = monitors.observe(asm, paths[0], compress, tap=False)
            acc['ctr']['deep_chains'] += 1
            core.see(acc, 'tree_depths', depth)
            if ref.ok and (not o.ok or o.out != ref.out or o.labels != ref.labels or o.constants != ref.constants):
                core.add_viol(acc, 'include chain of depth %d (compress=%s): %s; the flattened program gives %d bytes' % (
                    depth, compress, ('%d bytes' % len(o.out)) if o.ok else '%s: %s' % (o.exc['type'], o.exc['msg'][:80]), len(ref.out)), {'seed': seed, 'idx': idx, 'deep': True}, {})
            elif ref.ok:
                acc['ntkeys'].add(core.ckey('deep', seed, idx, compress))
    finally:
        shutil.rmtree(root, ignore_errors=True)


def late_files(asm, acc, seed, idx):
    """history in one interpreter: an include that was missing is created; a same-named file appears earlier on the search path.
    Each build is the splice of what is on disk at that moment"""
    rng = random.Random('c14-late-%d-%d' % (seed, idx))
    root = tempfile.mkdtemp(prefix='bbv-c14-')
    try:
        a, b, src = (os.path.join(root, n) for n in ('zz_first', 'aa_second', 'src'))
        for d in (a, b, src):
            os.makedirs(d)
        main = os.path.join(src, 'main.asm')
        v1, v2, v3 = rng.sample(range(1, 200), 3)
        with open(main, 'w') as f:
            f.write('include late.asm\ninclude defs.asm\naddi x1, x0, LATE\naddi x2, x0, DEFS\n')
        with open(os.path.join(b, 'defs.asm'), 'w') as f:
            f.write('DEFS = %d\n' % v1)
        case = {'seed': seed, 'idx': idx, 'late': True}
        steps = []
        o = monitors.observe(asm, main, False, include_dirs=[a, b], tap=False)
        steps.append(('late.asm missing', o, None))
        with open(os.path.join(src, 'late.asm'), 'w') as f:
            f.write('LATE = %d\n' % v2)
        o = monitors.observe(asm, main, False, include_dirs=[a, b], tap=False)
        steps.append(('late.asm created next to main.asm', o, (v2, v1)))
        with open(os.path.join(a, 'defs.asm'), 'w') as f:
            f.write('DEFS = %d\n' % v3)
        o = monitors.observe(asm, main, False, include_dirs=[a, b], tap=False)
        steps.append(('defs.asm added to the first -i directory', o, (v2, v3)))
        os.unlink(os.path.join(a, 'defs.asm'))
        o = monitors.observe(asm, main, False, include_dirs=[a, b], tap=False)
        steps.append(('defs.asm removed from the first -i directory again', o, (v2, v1)))
        for what, o, want in steps:
            acc['n'] += 1
            acc['ctr']['late_file_steps'] += 1
            acc['ntkeys'].add(core.ckey('late', seed, idx, what))
            if want is None:
                if o.ok:
                    core.add_viol(acc, 'history step "%s": the program assembles although late.asm does not exist' % what, case, {})
                continue
            exp = asm.assemble('addi x1, x0, %d\naddi x2, x0, %d\n' % want)
            if not o.ok:
                core.add_viol(acc, 'history step "%s": refused (%s); the files on disk splice to addi x1, x0, %d / addi x2, x0, %d' % (what, o.exc['msg'][:80], want[0], want[1]), case, {})
            elif o.out != bytes(exp):
                core.add_viol(acc, 'history step "%s": output %s; the files on disk splice to addi x1, x0, %d / addi x2, x0, %d = %s' % (what, o.out.hex(), want[0], want[1], bytes(exp).hex()), case, {})
    finally:
        shutil.rmtree(root, ignore_errors=True)


def run_shard(sh, deadline):
    asm = core.load_asm()
    acc = core.new_acc()
    for idx in range(sh['lo'], sh['hi']):
        if idx % 80 == 13:
            deep_chain(asm, acc, sh['seed'], idx)
        if idx % 40 == 7:
            late_files(asm, acc, sh['seed'], idx)
        run_tree(asm, acc, sh['seed'], idx, sh['ncli'] if idx % sh['cli_every'] == 0 else 0)
        if time.time() > deadline:
            acc['truncated'] += 1
            break
    return acc


def plan(tier, seed):
    n = 320 if tier == 'quick' else 5000
    st = 5 if tier == 'quick' else 20
    return {'shards': [{'seed': seed, 'lo': lo, 'hi': min(n, lo + st), 'ncli': 2, 'cli_every': 2 if tier == 'quick' else 1} for lo in range(0, n, st)],
            'budget_s': 300 if tier == 'quick' else 3000}


def gates(acc, tier):
    g = []
    if acc['ctr']['api_runs'] == 0 or acc['ctr']['cli_runs'] == 0:
        g.append('API or CLI path never ran')
    if max(acc['seen'].get('tree_depths', {0})) < 3:
        g.append('no tree of depth >= 3')
    if acc['ctr']['flat_refused'] > 0.3 * max(1, acc['ctr']['api_runs'] / 6):
        g.append('%d flattened programs refused' % acc['ctr']['flat_refused'])
    if len(acc['seen'].get('cells', ())) < 10:
        g.append('entry point / cwd cells seen: %s' % sorted(acc['seen'].get('cells', ())))
    return g


def replay(case):
    asm = core.load_asm()
    acc = core.new_acc()
    if case.get('late'):
        late_files(asm, acc, case['seed'], case['idx'])
    elif case.get('deep'):
        deep_chain(asm, acc, case['seed'], case['idx'])
    else:
        run_tree(asm, acc, case['seed'], case['idx'], 2)
    return acc
