"""C20 - with -c everything eligible is compressed and nothing grows.  DESIGN.md section 4 / C20.

Eligibility relation = the reference RVC decoder: for every legal non-hint halfword h, the 32-bit instruction
expand16(decode16(h)) written as a source line with literal operands must come out in 16 bits (complete
enumeration of all 28,461 legal halfwords in both tiers).  Monotonicity on generated programs of the C03 / C04 / C09
families: compressed output never longer, no label at a greater offset.
"""
import random
import time

from .. import core, monitors, progcheck
from ..gen import program as P, randprog
from ..refmodel import rv
from . import c09

ID = 'C20'
LEVEL = 'exploration'
RULE = ('eligibility: every legal RV32C halfword (all 65,536 classified, 28,461 legal) -> its expansion rendered as a 32-bit source '
        'line in several register/integer spellings, embedded in 400-line programs and (sampled in quick, all in thorough) alone, '
        'assembled with compression; the chunk of the line must be 2 bytes and a legal RVC encoding of the same instruction. '
        'monotonicity: random programs and align-sweep programs assembled in both modes.  Non-trivial = a legal halfword '
        '(eligibility) or an accepted-in-both-modes program in which at least one item changed size (monotonicity); distinct by '
        'construction / by (generator seed, index).')
ASSUMPTIONS = ['"eligible" = equals the spec expansion of a legal non-hint RVC instruction with literal operands (refmodel/rv.py)']

ABI = ['zero', 'ra', 'sp', 'gp', 'tp', 't0', 't1', 't2', 's0', 's1', 'a0', 'a1', 'a2', 'a3', 'a4', 'a5', 'a6', 'a7', 's2', 's3',
       's4', 's5', 's6', 's7', 's8', 's9', 's10', 's11', 't3', 't4', 't5', 't6']


def sreg(n, sp):
    return ['x%d' % n, str(n), ABI[n]][sp % 3]


def sint(v, sp):
    k = (sp // 3) % 3
    if k == 0:
        return str(v)
    return ('-' if v < 0 else '') + (hex(abs(v)) if k == 1 else bin(abs(v)))


def text32(e, sp, immtext=None, regtext=None):
    n = e['name']
    sint = (lambda v, _sp: immtext) if immtext is not None else globals()['sint']   # noqa: the operand given by name
    r = lambda k: regtext[k] if regtext and k in regtext else sreg(e[k], sp + (7 if k == 'rs1' else (11 if k == 'rs2' else 0)))  # noqa
    if n == 'ebreak':
        return n
    if n in ('addi', 'andi', 'jalr', 'lw'):
        if n in ('jalr', 'lw') and sp % 2:
            return '%s %s, %s(%s)' % (n, r('rd'), sint(e['imm'], sp), r('rs1'))
        return '%s %s, %s, %s' % (n, r('rd'), r('rs1'), sint(e['imm'], sp))
    if n == 'sw':
        if sp % 2:
            return 'sw %s, %s(%s)' % (r('rs2'), sint(e['imm'], sp), r('rs1'))
        return 'sw %s, %s, %s' % (r('rs1'), r('rs2'), sint(e['imm'], sp))
    if n == 'jal':
        return 'jal %s, %s' % (r('rd'), sint(e['imm'], sp))
    if n == 'lui':
        v = e['imm']
        if v < 0 and sp % 2:
            v += 1 << 20          # the 0xfffe0..0xfffff spelling the assembler documents in a comment
        return 'lui %s, %s' % (r('rd'), sint(v, sp))
    if n in ('srli', 'srai', 'slli'):
        return '%s %s, %s, %s' % (n, r('rd'), r('rs1'), sint(e['shamt'], sp))
    if n in ('sub', 'xor', 'or', 'and', 'add'):
        return '%s %s, %s, %s' % (n, r('rd'), r('rs1'), r('rs2'))
    if n in ('beq', 'bne'):
        return '%s %s, %s, %s' % (n, r('rs1'), r('rs2'), sint(e['imm'], sp))
    raise KeyError(n)


def judge_line(acc, h, e, line, data, ctx):
    acc['nt'] += 1
    rcase = {'kind': 'elig', 'h': h, 'sp': ctx['sp'], 'alone': ctx['alone']}
    if len(data) != 2:
        core.add_viol(acc, 'eligible instruction %r (the expansion of legal halfword %#06x, %s) was emitted in %d bytes (%s) with -c' % (
            line, h, rv.decode16(h)[1]['name'], len(data), data.hex()), rcase, {})
        return
    h2 = int.from_bytes(data, 'little')
    k2, i2 = rv.decode16(h2)
    if k2 != 'legal' or rv.expand16(i2) != e:
        core.add_viol(acc, 'line %r compressed to %#06x which is %s %r, not the same instruction' % (line, h2, k2, i2), rcase, {})
        return
    acc['ctr']['same_halfword' if h2 == h else 'equivalent_other_halfword'] += 1
    core.see(acc, 'rvc_results', i2['name'])


def elig_shard(asm, acc, sh, deadline):
    batch = []
    for h in range(sh['lo'], sh['hi']):
        acc['n'] += 1
        k, i = rv.decode16(h)
        acc['ctr']['class:' + k] += 1
        if k != 'legal':
            continue
        e = rv.expand16(i)
        sp = (h * 7 + sh['seed']) % 18
        batch.append((h, e, text32(e, sp), sp))
        alone = sh['tier'] == 'thorough' or ((h * 2654435761) >> 11) % 16 == sh['seed'] % 16
        if alone:
            o = monitors.observe(asm, batch[-1][2], compress=True, tap=False)
            if not o.ok:
                core.add_viol(acc, 'the expansion %r of legal halfword %#06x is refused with -c: %s' % (batch[-1][2], h, o.exc['msg']),
                              {'kind': 'elig', 'h': h, 'sp': sp, 'alone': True}, {})
            else:
                judge_line(acc, h, e, batch[-1][2], o.out, {'sp': sp, 'alone': True})
                acc['ctr']['alone'] += 1
        if (sh['tier'] == 'thorough' or ((h * 2654435761) >> 9) % 6 == sh['seed'] % 6) and ('imm' in e or 'shamt' in e):
            # the same instruction with its immediate / shift amount given through a named constant (not label-dependent either),
            # assembled as its own program: earlier compress calls of this process defined other constants
            name = 'KC%d' % (h % 7)
            val = e.get('imm', e.get('shamt'))
            form = (h // 3) % 4
            immtext = name
            if 'imm' in e and e['name'] not in ('jal', 'beq', 'bne') and form == 1:
                immtext = '%%position(%s, 0)' % name          # a constant through %position: still label-independent
            elif 'imm' in e and e['name'] not in ('jal', 'beq', 'bne', 'lui') and form == 2 and -2048 <= val <= 2047:
                immtext = '%%lo(%s)' % name
            if (e['name'] in ('lw', 'sw', 'jalr') and sp % 2) and immtext != name:
                immtext = name                                   # the imm(reg) spelling takes a single token
            line2 = text32(e, sp, immtext=immtext)
            if True:
                src = '%s = %d\n%s\n' % (name, val, line2)
                lay2 = monitors.layout(asm, src.splitlines(), compress=True)
                acc['n'] += 1
                if lay2.obs.ok and lay2.chunks is not None:
                    acc['ctr']['constant_operand_cases'] += 1
                    judge_line(acc, h, e, src.strip().replace('\n', ' ; '), lay2.chunks[1][1], {'sp': sp, 'alone': 'const'})
                elif not lay2.obs.ok:
                    core.add_viol(acc, 'the expansion of legal halfword %#06x with a constant operand (%s) is refused with -c: %s' % (h, src.strip().replace('\n', ' ; '), lay2.obs.exc['msg']),
                                  {'kind': 'elig', 'h': h, 'sp': sp, 'alone': 'const'}, {})
        if (sh['tier'] == 'thorough' or ((h * 2654435761) >> 7) % 6 == sh['seed'] % 6) and any(k in e for k in ('rd', 'rs1', 'rs2')):
            # the same instruction with its registers named through register-alias constants (x0 included: `ZERO = zero`)
            regtext, defs = {}, []
            for k in ('rd', 'rs1', 'rs2'):
                if k in e:
                    nm = 'RA_%s' % k
                    defs.append('%s = %s' % (nm, ['x%d' % e[k], ABI[e[k]], str(e[k])][(h + len(k) + e[k]) % 3]))
                    regtext[k] = nm
            line3 = text32(e, sp, regtext=regtext)
            lay3 = monitors.layout(asm, defs + [line3], compress=True)
            acc['n'] += 1
            what = ' ; '.join(defs + [line3])
            if lay3.obs.ok and lay3.chunks is not None:
                acc['ctr']['register_alias_cases'] += 1
                judge_line(acc, h, e, what, lay3.chunks[len(defs)][1], {'sp': sp, 'alone': 'alias'})
            elif not lay3.obs.ok:
                core.add_viol(acc, 'the expansion of legal halfword %#06x with aliased registers (%s) is refused with -c: %s' % (h, what, lay3.obs.exc['msg']),
                              {'kind': 'elig', 'h': h, 'sp': sp, 'alone': 'alias'}, {})
        if len(batch) >= 400:
            flush(asm, acc, batch)
            batch = []
            if time.time() > deadline:
                acc['truncated'] += 1
                break
    if batch:
        flush(asm, acc, batch)


def flush(asm, acc, batch):
    lines = [b[2] for b in batch]
    lay = monitors.layout(asm, lines, compress=True)
    if not lay.obs.ok:
        if len(batch) > 1:
            mid = len(batch) // 2
            flush(asm, acc, batch[:mid])
            flush(asm, acc, batch[mid:])
        else:
            h, e, line, sp = batch[0]
            core.add_viol(acc, 'the expansion %r of legal halfword %#06x is refused with -c: %s' % (line, h, lay.obs.exc['msg']),
                          {'kind': 'elig', 'h': h, 'sp': sp, 'alone': True}, {})
        return
    if lay.chunks is None or not lay.order_ok:
        core.add_viol(acc, 'layout: ' + lay.why, {'kind': 'eligbatch', 'lines': lines}, {})
        return
    acc['ctr']['embedded'] += len(batch)
    for (h, e, line, sp), (st, data) in zip(batch, lay.chunks):
        judge_line(acc, h, e, line, data, {'sp': sp, 'alone': False})
    h, e, line, sp = batch[len(batch) // 2]
    core.add_sample(acc, {'halfword': '%#06x' % h, 'expansion_line': line, 'emitted': lay.chunks[len(batch) // 2][1].hex()})


_ELIGIBLE = None


def eligible_set():
    """every 32-bit instruction that is the expansion of a legal non-hint RV32C halfword (the reference eligibility relation)"""
    global _ELIGIBLE
    if _ELIGIBLE is None:
        _ELIGIBLE = {}
        for h in range(65536):
            k, i = rv.decode16(h)
            if k == 'legal':
                _ELIGIBLE.setdefault(tuple(sorted(rv.expand16(i).items())), h)
    return _ELIGIBLE


def pseudo_case(asm, acc, seed, idx):
    """instructions that come out of pseudo-instruction expansions (li, mv, ret, nop, jr, near j / call / tail / beqz with *literal*
    operands only) are instructions with literal operands too: under -c none of them may stay 32 bits wide if it equals the
    expansion of a legal RVC instruction"""
    from .. import sem
    from . import c05
    rng = random.Random('c20-pseudo-%d-%d' % (seed, idx))
    items = []
    R = lambda: {'r': rng.choice([1, 2, 5, 8, 9, 15, 31, 0])}  # noqa
    for _ in range(40):
        c = rng.random()
        if c < 0.45:
            v = rng.choice(c05.li_values(rng, 60))
            items.append({'k': 'pseudo', 'm': 'li', 'ops': [R(), {'i': v}]})
        elif c < 0.7:
            m = rng.choice(['mv', 'not', 'neg', 'seqz', 'snez', 'sltz', 'sgtz'])
            items.append({'k': 'pseudo', 'm': m, 'ops': [R(), R()]})
        elif c < 0.85:
            items.append({'k': 'pseudo', 'm': rng.choice(['nop', 'ret', 'fence']), 'ops': []})
        elif c < 0.95:
            items.append({'k': 'pseudo', 'm': rng.choice(['jr', 'jalr']), 'ops': [R()]})
        else:
            items.append(randprog.plain_inst(rng, 0.5))
    ex = progcheck.examine(asm, items, True, judge=False)
    acc['n'] += 1
    if not ex.ok or ex.layout_problem:
        acc['ctr']['pseudo_program_refused'] += 1
        return
    el = eligible_set()
    for it, (st, data) in zip(items, ex.lay.chunks):
        parts = sem.decode_chunk(data)
        if isinstance(parts, str):
            continue
        for size, raw, d, ci in parts:
            acc['ctr']['expansion_instructions_checked'] += 1
            if size == 4 and tuple(sorted(d.items())) in el:
                core.add_viol(acc, '`%s` under -c emitted the 32-bit instruction %r (%08x), which is the expansion of the legal RVC halfword %#06x' % (
                    P.r_item(it), d, raw, el[tuple(sorted(d.items()))]), {'kind': 'pseudo', 'seed': seed, 'idx': idx}, {'chunk': data.hex()})
            elif size == 2:
                acc['ctr']['expansion_instructions_compressed'] += 1
    acc['ntkeys'].add(core.ckey('pseudo', seed, idx))


MONO_CFGS = [
    dict(),
    dict(w_xfer=30, w_li=12, w_align=10, labels=(2, 8)),
    dict(w_inst=40, compress_bias=0.9, w_cinst=8, w_align=10),
    dict(w_labimm=16, w_data=10, w_align=8, w_li=10),
]


def mono_case(asm, acc, seed, idx):
    rng = random.Random('c20-mono-%d-%d' % (seed, idx))
    if idx % 5 == 4:
        items = c09.sweep_program(rng, rng.choice(c09.SMALL_N + [64, 128]), rng.randrange(0, 40))
    else:
        items = randprog.gen(rng, MONO_CFGS[idx % len(MONO_CFGS)])
    acc['n'] += 1
    pre = lambda: None  # noqa
    if idx % 3 == 1:
        # both builds are handed a label table left over from a build of a differently ordered source (own names, stale values)
        names = list(dict.fromkeys(it['name'] for it in items if it['k'] == 'label'))
        prng = random.Random('c20-pre-%d' % idx)
        prng.shuffle(names)
        table = {n: 2 * prng.randrange(0, 5000) for n in names}
        pre = lambda: {'labels': dict(table)}  # noqa
        acc['ctr']['mono_pairs_with_a_leftover_label_table'] += 1
    u = progcheck.examine(asm, items, False, judge=False, preseed=pre())
    c = progcheck.examine(asm, items, True, judge=False, preseed=pre())
    rcase = {'kind': 'mono', 'seed': seed, 'idx': idx}
    if not (u.ok and c.ok):
        acc['ctr']['mono_refused'] += 1
        return
    if u.layout_problem or c.layout_problem:
        return
    acc['ctr']['mono_pairs'] += 1
    if len(c.out) > len(u.out):
        core.add_viol(acc, 'compressed binary is longer: %d bytes vs %d' % (len(c.out), len(u.out)), rcase, {'lines': u.lines[:60]})
    for name, off in u.labels_reported.items():
        oc = c.labels_reported.get(name)
        if oc is None or oc > off:
            core.add_viol(acc, 'label %s moved up under compression: %r vs %d' % (name, oc, off), rcase, {'lines': u.lines[:60]})
    su = [len(x[1]) for x in u.lay.chunks]
    sc = [len(x[1]) for x in c.lay.chunks]
    if su != sc:
        acc['ntkeys'].add(core.ckey('mono', seed, idx))
    acc['ctr']['bytes_saved'] += len(u.out) - len(c.out)
    if idx % 211 == 0:
        core.add_sample(acc, {'monotonicity_program': u.lines[:10], 'len_uncompressed': len(u.out), 'len_compressed': len(c.out)})


def run_shard(sh, deadline):
    asm = core.load_asm()
    acc = core.new_acc()
    if sh['kind'] == 'elig':
        elig_shard(asm, acc, sh, deadline)
    elif sh['kind'] == 'pseudo':
        for idx in range(sh['lo'], sh['hi']):
            pseudo_case(asm, acc, sh['seed'], idx)
    else:
        for idx in range(sh['lo'], sh['hi']):
            mono_case(asm, acc, sh['seed'], idx)
            if time.time() > deadline:
                acc['truncated'] += 1
                break
    return acc


def plan(tier, seed):
    step = 1024
    shards = [{'kind': 'elig', 'lo': lo, 'hi': lo + step, 'seed': seed, 'tier': tier} for lo in range(0, 65536, step)]
    n = 3000 if tier == 'quick' else 100000
    st = 100 if tier == 'quick' else 1000
    shards += [{'kind': 'mono', 'seed': seed, 'lo': lo, 'hi': min(n, lo + st)} for lo in range(0, n, st)]
    npz = 320 if tier == 'quick' else 16000
    shards += [{'kind': 'pseudo', 'seed': seed, 'lo': lo, 'hi': lo + 20} for lo in range(0, npz, 20)]
    return {'shards': shards, 'budget_s': 300 if tier == 'quick' else 3000, 'exhaustive': True}


def gates(acc, tier):
    g = []
    total = sum(v for k, v in acc['ctr'].items() if k.startswith('class:'))
    if total != 65536:
        g.append('classified %d/65536 halfwords' % total)
    if acc['ctr']['class:legal'] != 28461:
        g.append('reference model counts %d legal halfwords, expected 28461' % acc['ctr']['class:legal'])
    if len(acc['seen'].get('rvc_results', ())) < 27 and not acc['nviol']:
        g.append('only %d/27 RVC mnemonics observed as compression results' % len(acc['seen'].get('rvc_results', ())))
    if acc['ctr']['constant_operand_cases'] == 0:
        g.append('no eligibility case with a constant-valued operand ran')
    if acc['ctr']['mono_pairs'] < 0.5 * max(1, acc['ctr']['mono_pairs'] + acc['ctr']['mono_refused']):
        g.append('most monotonicity programs were refused')
    return g


def post(acc, tier):
    return {'legal_halfwords': acc['ctr']['class:legal'], 'reproduced_same_halfword': acc['ctr']['same_halfword'],
            'compressed_to_equivalent_legal_form': acc['ctr']['equivalent_other_halfword'],
            'monotonicity_program_pairs': acc['ctr']['mono_pairs']}


def replay(case):
    asm = core.load_asm()
    acc = core.new_acc()
    if case['kind'] == 'elig':
        h = case['h']
        k, i = rv.decode16(h)
        e = rv.expand16(i)
        line = text32(e, case['sp'])
        acc['n'] += 1
        o = monitors.observe(asm, line, compress=True, tap=False)
        if not o.ok:
            core.add_viol(acc, 'the expansion %r of legal halfword %#06x is refused with -c: %s' % (line, h, o.exc['msg']), case, {})
        else:
            judge_line(acc, h, e, line, o.out, {'sp': case['sp'], 'alone': True})
    elif case['kind'] == 'pseudo':
        pseudo_case(asm, acc, case['seed'], case['idx'])
    elif case['kind'] == 'eligbatch':
        lay = monitors.layout(asm, case['lines'], compress=True)
        acc['n'] += 1
        if lay.obs.ok and (lay.chunks is None or not lay.order_ok):
            core.add_viol(acc, 'layout: ' + lay.why, case, {})
    else:
        mono_case(asm, acc, case['seed'], case['idx'])
    return acc
