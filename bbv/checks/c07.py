"""C07 - %hi / %lo split every 32-bit value so that the consuming pair rebuilds it.  DESIGN.md 4 / C07.

Function boundary: asm.relocate_hi / asm.relocate_lo on values enumerated by carry class.
Program level: lui+addi, lui+lw/sw, auipc+addi, auipc+jalr pairs written with %hi/%lo of literals, constants,
labels and %position expressions are *executed* on the reference ISS; the pair must address exactly v.
"""
import random
import re
import time

from .. import core, monitors
from ..refmodel import iss

ID = 'C07'
LEVEL = 'exploration'
RULE = ('function boundary: all 2^13 low-13-bit patterns x upper-19-bit carry classes (quick 64 classes; thorough all 2^19 '
        'upper values x 40 critical low patterns plus all 2^13 low patterns x 4096 upper classes), each value also in its negative '
        'spelling when >= 2^31; program level: generated programs whose %hi/%lo pairs are executed on the reference ISS. '
        'Non-trivial = a value whose low 12 bits have bit 11 set or whose upper part is at a wrap boundary (carry actually matters), '
        'or any program-level pair; distinct values by construction (disjoint grids) / by a set.')
ASSUMPTIONS = ['reference ISS bbv/refmodel/iss.py implements RV32I lui/auipc/addi/lw/sw/jalr per the unprivileged spec']

M32 = 0xffffffff
CRIT_LOW = [0, 1, 2, 0x7fe, 0x7ff, 0x800, 0x801, 0x802, 0xffe, 0xfff, 0x1000, 0x1001, 0x17ff, 0x1800, 0x1801, 0x1fff,
            0x555, 0xaaa, 0x1555, 0x0aaa, 0x400, 0xc00, 0x1400, 0x1c00, 0x7fd, 0x803, 0xffd, 0x1003, 0x17fe, 0x1802, 0x1ffe, 0x1ffd,
            0x3ff, 0x401, 0xbff, 0xc01, 0x13ff, 0x1401, 0x1bff, 0x1c01]


def judge_value(acc, hi_f, lo_f, v):
    """v: the value as spelled (may be negative or >= 2^31)."""
    try:
        hi = hi_f(v)
        lo = lo_f(v)
    except Exception as e:  # noqa
        core.add_viol(acc, 'relocate_hi/lo raised %s for %#x' % (type(e).__name__, v), {'kind': 'fn', 'v': v}, {})
        return
    if not (-(1 << 19) <= hi < (1 << 19)) or not (-(1 << 11) <= lo < (1 << 11)) or (((hi << 12) + lo) & M32) != (v & M32):
        core.add_viol(acc, '%%hi/%%lo of %#x = (%r, %r): %s' % (v, hi, lo,
                      'does not fit its field' if not (-(1 << 19) <= hi < (1 << 19) and -(1 << 11) <= lo < (1 << 11)) else
                      '(hi<<12)+lo = %#x' % (((hi << 12) + lo) & M32)), {'kind': 'fn', 'v': v}, {'hi': hi, 'lo': lo})


def fn_shard(asm, acc, sh, deadline):
    hi_f = getattr(asm, 'relocate_hi', None)
    lo_f = getattr(asm, 'relocate_lo', None)
    if hi_f is None or lo_f is None:
        acc['ctr']['fn_boundary_missing'] += 1
        return
    n = nt = 0
    uppers = sh['uppers']
    lows = sh['lows']
    for up in uppers:
        base = up << 13
        for low in lows:
            u = base | low
            n += 1
            hi = hi_f(u)
            lo = lo_f(u)
            if not (-524288 <= hi < 524288 and -2048 <= lo < 2048 and ((hi << 12) + lo) & M32 == u):
                judge_value(acc, hi_f, lo_f, u)
            if low & 0x800 or up in (0, 0x3ffff, 0x40000, 0x7ffff):
                nt += 1
            if u >= 0x80000000:
                s = u - (1 << 32)
                n += 1
                hi = hi_f(s)
                lo = lo_f(s)
                if not (-524288 <= hi < 524288 and -2048 <= lo < 2048 and ((hi << 12) + lo) & M32 == u):
                    judge_value(acc, hi_f, lo_f, s)
        if time.time() > deadline:
            acc['truncated'] += 1
            break
    acc['n'] += n
    acc['nt'] += nt
    acc['ctr']['fn_values'] += n
    core.add_sample(acc, {'relocate': '%#x' % u, 'hi': hi_f(u), 'lo': lo_f(u)})


# ---------------------------------------------------------------------------------------------
# program level

def spell(rng, v):
    """a spelling of the 32-bit value v (unsigned, or the negative spelling) in dec or hex"""
    u = v & M32
    forms = [u]
    if u >= 0x80000000:
        forms.append(u - (1 << 32))
    x = rng.choice(forms)
    if rng.random() < 0.5:
        return str(x)
    return ('-' if x < 0 else '') + hex(abs(x))


def hl(rng, which, expr):
    """%hi(expr) or the parenthesis-free form"""
    if rng.random() < 0.7 or expr.startswith('%') or expr.startswith('('):      # `%hi (A - 1) * 3` would read as %hi(A - 1) ...
        return '%%%s(%s)' % (which, expr)
    return '%%%s %s' % (which, expr)


def interesting_value(rng):
    up = rng.choice([0, 1, 2, 0x3ffff, 0x40000, 0x7fffe, 0x7ffff, rng.getrandbits(19), rng.getrandbits(19), 15, 16, 31, 32, 0x7fff0, 0x7ffef, rng.randrange(0, 40)])
    # (also low parts that fit the RVC load / store / addi forms: the second instruction of a pair is a compression candidate)
    low = rng.choice(CRIT_LOW + [rng.getrandbits(13)] + [4 * rng.randrange(0, 32), 4 * rng.randrange(0, 32), rng.randrange(-32, 32) & 0x1fff, 4 * rng.randrange(0, 64)])
    return ((up << 13) | low) & M32


def build_program(rng, nvals):
    """-> (lines, checks) ; checks = [(kind, first_line_idx, value_expr_fn)]"""
    lines = []
    checks = []
    # labels far away so that label-valued and %position-valued expressions hit carry boundaries
    gap1 = rng.choice([0x7f0, 0x7fc, 0x800, 0x804, 0xff8, 0x1000, 0x17fc, 0x1800, rng.randrange(4, 0x3000, 4)])
    body = [('LSTART:', None)]           # a label in front of all code (it never moves), besides the ones behind it
    ctx = rng.random() < 0.5
    if ctx:
        body.append(('FARFN = 0x20000000', None))
    for k in range(nvals):
        if k == nvals // 2:
            body.append(('LMID:', None))
        if ctx and rng.random() < 0.3:
            # what else a program does between its pairs: far and near calls, tail calls, indirect jumps, loads and stores, data
            body.append((rng.choice(['call FARFN', 'tail FARFN', 'call LA', 'tail LB', 'jalr x1, x5, 8', 'lw x11, 12(x5)', 'sw x11, -4(x2)', 'jal x1, LA',
                                     'beq x5, x6, 8', 'dw 0x12345678', 'li x5, 0x12345',
                                     'addi x8, x8, 1', 'mv x9, x10', 'add x8, x8, x9', 'lw x8, 4(x9)', 'li x9, 5', 'addi sp, sp, -16']), None))
        if rng.random() < 0.08:
            # the assembler's own auipc + jalr pair: a far call / tail to an absolute address, placed so that the low 12 bits of the
            # distance are around 0 / 0x800 as seen from where this line sits while every pair before it still has its full size
            here = sum(8 if (l.startswith(('li ', 'lui', 'auipc', 'call', 'tail'))) else (4 if '=' not in l and not l.endswith(':') else 0) for l, _ in body)
            v = (here + rng.choice([0x20000000, 0x7ff00000, 0x00400000, 0xc0000000]) + rng.choice([0, 0x800, 0x7fc, 0x1000])
                 + 2 * rng.randrange(-10, 11)) & M32 & ~1
            body.append(('FV%d = %s' % (k, spell(rng, v)), None))
            first = len(body)
            m = rng.choice(['call', 'tail'])
            body.append(('%s FV%d' % (m, k), None))
            body.append(('addi x0, x0, 0', None))
            checks.append((m, first, 1 if m == 'call' else 6, ('lit', v), 'FV%d' % k))
            continue
        v = interesting_value(rng)
        form = rng.choice(['lit', 'const', 'label', 'position', 'constexpr', 'label', 'position', 'parenexpr'])
        name = 'V%d' % k
        if form == 'lit':
            e = spell(rng, v)
            val = ('lit', v)
        elif form == 'const' and rng.random() < 0.25 and 0 <= v < (1 << 32):
            # the value is an external symbol: it comes in through the caller's label table (`XS<k>_<value in hex>` - run_program reads the
            # table entries off the names), the program itself does not define it
            e = 'XS%d_%x' % (k, v)
            val = ('lit', v)
        elif form == 'const':
            body.append(('%s = %s' % (name, spell(rng, v)), None))
            e = name
            val = ('lit', v)
        elif form == 'constexpr':
            a = rng.getrandbits(20)
            body.append(('%s = %s' % (name, spell(rng, (v - a) & M32)), None))
            e = rng.choice(['%s + %d' % (name, a), '%d + %s' % (a, name)])
            val = ('lit', (v & M32))  # value of the expression mod 2^32 is v, whatever spelling was used
            # the spelled constant may be negative, so the sum may differ from v by 2^32: still the same 32-bit value
        elif form == 'parenexpr':
            # an argument with precedence-changing parentheses of its own inside the modifier's parentheses
            a, q = rng.randrange(1, 1000), rng.choice([2, 3, 4, 8, 0x100])
            vv = v & M32
            body.append(('%s = %s' % (name, spell(rng, vv // q + a)), None))
            e = rng.choice(['(%s - %d) * %d + %d' % (name, a, q, vv % q), '%d + %d * (%s - %d)' % (vv % q, q, name, a),
                            '((%s - %d) << %d) | %d' % (name, a, q.bit_length() - 1, vv % q) if q & (q - 1) == 0 else '(%s - %d) * %d + %d' % (name, a, q, vv % q),
                            '~(~((%s - %d) * %d) - %d)' % (name, a, q, vv % q)])
            val = ('lit', vv)
        elif form == 'label':
            lab = rng.choice(['LA', 'LB', 'LP'])
            e = lab
            val = ('label', lab, 0)
        else:
            lab = rng.choice(['LA', 'LB', 'LP'])
            base = interesting_value(rng) & ~3
            btxt = spell(rng, base)
            if rng.random() < 0.4:
                # the address as an expression whose top-level operator binds looser than `+` (bank << 26, base | offset, ...)
                k = rng.randrange(5)
                if k == 0 and base:
                    low = (base & -base).bit_length() - 1
                    btxt = '%d << %d' % (base >> low, low)
                elif k == 1:
                    m = rng.getrandbits(32)
                    btxt = '%d | %d' % (base & m, base & ~m & M32)
                elif k == 2:
                    m = rng.getrandbits(20)
                    btxt = '%d ^ %d' % (base ^ m, m)
                elif k == 3:
                    btxt = '%d & %d' % (base | (rng.getrandbits(32) & ~base & M32) if False else base, base | rng.getrandbits(32))
                else:
                    sh = rng.randrange(1, 5)
                    btxt = '%d >> %d' % (base << sh, sh)
            e = '%%position(%s, %s)' % (lab, btxt)
            val = ('label', lab, base)
        kind = rng.choice(['lui_addi', 'lui_lw', 'lui_sw', 'auipc_addi', 'auipc_jalr', 'lui_addi', 'li', 'li', 'lui_jalr'])
        rd = rng.choice([5, 6, 7, 8, 9, 10, 15, 28])
        if kind == 'li':
            # `li rd, expr` is documented as lui %hi + addi %lo of the same expression: one line, executed as a whole
            first = len(body)
            body.append(('li x%d, %s' % (rd, e), None))
            body.append(('addi x0, x0, 0', None))
            checks.append((kind, first, rd, val, e))
            continue
        rd = rng.choice([5, 6, 7, 8, 9, 10, 15, 28])
        if kind in ('auipc_jalr', 'lui_jalr') and val[0] == 'lit' and (val[1] & 1):
            kind = 'auipc_addi'              # (the assembler documents jalr offsets as multiples of 2)
        if kind == 'auipc_jalr' and val[0] == 'label':
            kind = 'lui_addi'
        first = len(body)
        if kind == 'lui_addi':
            body.append(('lui x%d, %s' % (rd, hl(rng, 'hi', e)), None))
            body.append(('addi x%d, x%d, %s' % (rd, rd, hl(rng, 'lo', e)), None))
        elif kind == 'lui_lw':
            body.append(('lui x%d, %s' % (rd, hl(rng, 'hi', e)), None))
            body.append(('lw x11, x%d, %s' % (rd, hl(rng, 'lo', e)), None))
        elif kind == 'lui_sw':
            body.append(('lui x%d, %s' % (rd, hl(rng, 'hi', e)), None))
            body.append(('sw x%d, x11, %s' % (rd, hl(rng, 'lo', e)), None))
        elif kind == 'auipc_addi':
            body.append(('auipc x%d, %s' % (rd, hl(rng, 'hi', e)), None))
            body.append(('addi x%d, x%d, %s' % (rd, rd, hl(rng, 'lo', e)), None))
        elif kind == 'lui_jalr':
            # an absolute jump: link register x1 / x0 and any base register, so that the pair is also what c.jalr / c.jr expand to
            body.append(('lui x%d, %s' % (rd, hl(rng, 'hi', e)), None))
            body.append(('jalr x%d, x%d, %s' % (rng.choice([1, 0, 1, 5]), rd, hl(rng, 'lo', e)), None))
        else:
            body.append(('auipc x%d, %s' % (rd, hl(rng, 'hi', e)), None))
            body.append(('jalr x1, x%d, %s' % (rd, hl(rng, 'lo', e)), None))
        checks.append((kind, first, rd, val, e))
    # assemble the line list: body, then gap, LA, gap, LB
    lines = [b[0] for b in body]
    if rng.random() < 0.6:
        # put LA so that its *pessimistic* offset (every li / pair counted 8 bytes) is just above a 2 KiB / 4 KiB boundary while
        # its final offset (after short li's shrink and, with -c, instructions compress) falls just below it
        pess = sum(8 if (l.startswith('li ') or l.startswith('lui') or l.startswith('auipc') or l.startswith('call') or l.startswith('tail')) else (4 if not ('=' in l) else 0) for l in lines)
        target = rng.choice([0x800, 0x1000, 0x1800, 0x2000]) + rng.choice([0, 0, 2, 4, 8, 12])
        while target - pess < 4:
            target += 0x800
        gap1 = target - pess
        gap1 -= gap1 % 2
    # `first` indices refer to body positions == line indices
    lines.append('string ' + 'A' * gap1)
    lines.append('LP:')             # a label directly in front of an `align` (which pads in some layouts and has nothing to do in others)
    lines.append('align 4')
    lines.append('LA:')
    lines.append('string ' + 'B' * rng.choice([4, 0x7fc, 0x1000, rng.randrange(4, 0x2000, 4)]))
    lines.append('LB:')
    lines.append('addi x0, x0, 0')
    for ln in list(lines):
        # a label with the same name as a constant (separate namespaces): %hi/%lo of the name still mean the constant
        if ln.startswith('V') and ' = ' in ln and rng.random() < 0.3:
            lines.append(ln.split()[0] + ':')
            lines.append('addi x0, x0, 0')
    return lines, checks


def label_offsets(lines, lay):
    offs = {}
    for i, ln in enumerate(lines):
        s = ln.strip()
        if s.endswith(':') and ' ' not in s:
            offs[s[:-1]] = lay.chunks[i][0]
    return offs


def run_program(asm, acc, lines, checks, compress, seedinfo):
    preseed = None
    if sum(map(ord, seedinfo)) % 3 == 0:
        # the caller's label table is left over from a build of a differently ordered source: own names, stale values, other order
        names = [l.strip()[:-1] for l in lines if l.strip().endswith(':') and ' ' not in l.strip()]
        prng = random.Random(seedinfo + 'pre')
        prng.shuffle(names)
        preseed = {'labels': {n: 2 * prng.randrange(0, 6000) for n in names}}
        acc['ctr']['programs_with_leftover_label_table'] += 1
    xs = dict((m.group(0), int(m.group(1), 16)) for l in lines for m in re.finditer(r'XS\d+_([0-9a-f]+)', l))
    if xs:
        preseed = {'labels': dict((preseed or {}).get('labels', {}), **xs)}
        acc['ctr']['programs_with_external_symbols_in_the_callers_table'] += 1
    lay = monitors.layout(asm, lines, compress, preseed=preseed)
    acc['n'] += 1
    acc['ctr']['programs'] += 1
    case = {'kind': 'prog', 'lines': lines, 'checks': checks, 'compress': compress}
    if not lay.obs.ok:
        acc['ctr']['program_refused'] += 1
        acc['notes'].append('refused: %r' % (lay.obs.exc,)) if len(acc['notes']) < 3 else None
        txt = (lay.obs.exc.get('contents') or '').strip()
        if lay.obs.exc.get('is_asm_error') and ('%hi' in txt or '%lo' in txt or txt.lower().startswith('li ')) and not any(n in txt for n in ('LA', 'LB', 'LP', 'LSTART', 'LMID', '%position', '%offset', 'FARFN')):
            # "for every 32-bit value v, %hi(v) fits the upper-immediate field and %lo(v) the signed 12-bit field": if the operand of the
            # refused consumer (a literal, or an expression over the program's constants - evaluated here with plain integer arithmetic) is
            # a 32-bit value in a signed or an unsigned spelling, the refusal says one of the two did not fit.  Spellings beyond 32 bits
            # (the generator writes some: `739905 + V1` = 2^32 + 6145) may be refused or wrapped - the statement does not say
            env = {}
            for ln in lines:
                mm = re.match(r"^\s*([A-Za-z_]\w*)\s*=\s*([^#]+)$", ln)
                if mm:
                    try:
                        env[mm.group(1)] = int(eval(mm.group(2), {'__builtins__': {}}, dict(env)))
                    except Exception:      # noqa - a definition this little evaluator cannot read: the name stays unknown
                        pass
            cands = sorted((chk[4] for chk in checks if len(chk) > 4 and isinstance(chk[4], str) and
                            re.search(r'(?<![\w.])' + re.escape(chk[4]) + r'(?![\w.])', txt)), key=len, reverse=True)[:1]
            for e in cands:
                try:
                    v = int(eval(e, {'__builtins__': {}}, dict(env)))
                except Exception:          # noqa
                    continue
                if -(1 << 31) <= v < (1 << 32):
                    core.add_viol(acc, 'the line `%s` is refused (%s) although its operand %s = %d is a 32-bit value (compress=%s)' % (
                        txt[:120], lay.obs.exc['msg'][:160], e[:80], v, compress), case, {})
                    break
                acc['ctr']['refused_consumers_of_a_value_beyond_32_bits'] += 1
        return
    if lay.chunks is None or not lay.order_ok:
        core.add_viol(acc, 'layout not in source order: ' + lay.why, case, {})
        return
    acc['ctr']['layout_via_' + lay.via] += 1
    offs = label_offsets(lines, lay)
    out = lay.obs.out
    rng = random.Random(seedinfo)
    for (kind, first, rd, val, e) in checks:
        st0 = lay.chunks[first][0]
        end = lay.chunks[first + 1][0] + len(lay.chunks[first + 1][1])
        if kind in ('li', 'call', 'tail'):
            end = st0 + len(lay.chunks[first][1])
        if val[0] == 'lit':
            v = val[1] & M32
        else:
            v = (offs[val[1]] + val[2]) & M32
        regs = [rng.getrandbits(32) for _ in range(32)]
        m = iss.Machine(regs, pc=st0, code=out)
        steps = 0
        while st0 <= m.pc < end and steps < 2 and m.trap is None:
            if m.step() is None:
                break
            steps += 1
        if kind in ('li', 'call', 'tail') and steps == 1 and m.trap is None:
            steps = 2          # a value that fits 12 bits / a target within 1 MiB is a single instruction
        acc['ntkeys'].add(core.ckey(kind, v, e, compress))
        acc['ctr']['pair:' + kind] += 1
        what = None
        if m.trap:
            what = 'trap: ' + m.trap
        elif steps != 2:
            what = 'pair did not execute as two instructions'
        elif kind == 'li' and m.x[rd] != v:
            what = 'x%d = %#x' % (rd, m.x[rd])
        elif kind == 'lui_addi' and m.x[rd] != v:
            what = 'x%d = %#x' % (rd, m.x[rd])
        elif kind == 'auipc_addi' and m.x[rd] != (st0 + v) & M32:
            what = 'x%d = %#x, expected pc+v = %#x' % (rd, m.x[rd], (st0 + v) & M32)
        elif kind in ('lui_lw', 'lui_sw') and (len(m.accesses) != 1 or m.accesses[0][1] != v):
            what = 'memory access %r' % (m.accesses,)
        elif kind == 'auipc_jalr' and m.pc != ((st0 + v) & M32 & ~1):
            what = 'pc = %#x, expected %#x' % (m.pc, (st0 + v) & M32)
        elif kind in ('call', 'tail') and m.pc != v:
            what = 'pc = %#x, expected %#x' % (m.pc, v)
        elif kind == 'lui_jalr' and m.pc != (v & ~1):
            what = 'pc = %#x, expected %#x' % (m.pc, v & ~1)
        if what:
            core.add_viol(acc, '%s pair for %s (value %#x, compress=%s) does not address the value: %s; bytes %s' % (
                kind, e, v, compress, what, out[st0:end].hex()), case, {'lines': lines[first:first + 2]})
    if acc['ctr']['sampled'] < 2:
        acc['ctr']['sampled'] += 1
        k = checks[0]
        core.add_sample(acc, {'program_pair': lines[k[1]:k[1] + 2], 'value': k[3], 'bytes': out[lay.chunks[k[1]][0]:lay.chunks[k[1] + 1][0] + 4].hex()})


def prog_shard(asm, acc, sh, deadline):
    # history: earlier builds of this interpreter (one per mode) in which the names the programs below use for their *labels* were
    # constants - what a name was in another program says nothing about what it is in this one
    for compress in (True, False):
        try:
            asm.assemble('LA = 0\nLB = 4\nLP = 0x800\nLSTART = 0\nLMID = 0\nlui x8, %hi(LP)\naddi x8, x8, %lo(LP)\naddi x9, x9, %lo(LA)\nlw x10, %lo(LB)(x8)\n', compress=compress)
            acc['ctr']['history_builds_with_the_label_names_as_constants'] += 1
        except Exception:       # noqa - whatever the tree makes of the history program: it is history, not the subject
            acc['ctr']['history_builds_refused'] += 1
    for p in range(sh['count']):
        rng = random.Random('c07-%d-%d-%d' % (sh['seed'], sh['idx'], p))
        lines, checks = build_program(rng, sh['nvals'])
        for compress in (False, True):
            run_program(asm, acc, lines, checks, compress, 'rf-%d-%d' % (sh['idx'], p))
        if time.time() > deadline:
            acc['truncated'] += 1
            break


def run_shard(sh, deadline):
    asm = core.load_asm()
    acc = core.new_acc()
    if sh['kind'] == 'fn':
        fn_shard(asm, acc, sh, deadline)
    else:
        prog_shard(asm, acc, sh, deadline)
    return acc


def plan(tier, seed):
    rng = random.Random('c07-plan-%d' % seed)
    shards = []
    all_low = list(range(1 << 13))
    if tier == 'quick':
        ups = [0, 1, 2, 3, 0x3fffe, 0x3ffff, 0x40000, 0x40001, 0x7fffe, 0x7ffff, 0x2aaaa, 0x55555, 0x15555, 0x6aaaa, 0x20000, 0x60000]
        ups += [rng.getrandbits(19) for _ in range(48)]
        ups = sorted(set(ups))
        for i in range(0, len(ups), 4):
            shards.append({'kind': 'fn', 'uppers': ups[i:i + 4], 'lows': all_low})
        for i in range(16):
            shards.append({'kind': 'prog', 'idx': i, 'count': 25, 'nvals': 40, 'seed': seed})
        return {'shards': shards, 'budget_s': 120}
    # thorough: all 2^19 upper values x critical low patterns; all low patterns x 4096 upper classes
    step = 1 << 12
    for lo in range(0, 1 << 19, step):
        shards.append({'kind': 'fn', 'uppers': range(lo, lo + step), 'lows': CRIT_LOW})
    cls = sorted(set([0, 1, 0x3ffff, 0x40000, 0x7fffe, 0x7ffff] + [rng.getrandbits(19) for _ in range(32760)]))
    for i in range(0, len(cls), 64):
        shards.append({'kind': 'fn', 'uppers': cls[i:i + 64], 'lows': all_low})
    for i in range(1024):
        shards.append({'kind': 'prog', 'idx': i, 'count': 40, 'nvals': 40, 'seed': seed})
    return {'shards': shards, 'budget_s': 2400}


def gates(acc, tier):
    g = []
    if acc['ctr']['fn_values'] == 0 and sum(acc['ctr']['pair:' + k] for k in ('lui_addi', 'lui_lw', 'lui_sw', 'auipc_addi', 'auipc_jalr')) < 2000:
        g.append('relocate_hi/relocate_lo are not reachable and too few %hi/%lo pairs were executed at program level')
    for k in ('lui_addi', 'lui_lw', 'lui_sw', 'auipc_addi', 'auipc_jalr', 'li'):
        if acc['ctr']['pair:' + k] == 0:
            g.append('no executed %s pair' % k)
    if acc['ctr']['program_refused'] > 0.2 * max(1, acc['ctr']['programs']):
        g.append('%d generated programs were refused' % acc['ctr']['program_refused'])
    return g


def replay(case):
    asm = core.load_asm()
    acc = core.new_acc()
    if case['kind'] == 'fn':
        judge_value(acc, asm.relocate_hi, asm.relocate_lo, case['v'])
        acc['n'] += 1
    else:
        checks = [(c[0], c[1], c[2], tuple(c[3]), c[4]) for c in case['checks']]
        run_program(asm, acc, case['lines'], checks, case['compress'], 'replay')
    return acc
