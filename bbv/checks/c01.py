"""C01 - 32-bit encodings are exactly the spec's, one-to-one.  DESIGN.md section 4 / C01.

Monitor: postcondition on every encoder execution, decided by the independent decoder
(refmodel/rv.py): decode32(INSTRUCTIONS[m](*t)) == (m, canon(t)).  decode32 is a function, so the
postcondition holding on all enumerated tuples also gives injectivity on them.
"""
import itertools
import random
import time

from .. import core, monitors
from ..gen import variants
from ..refmodel import rv, operands

ID = 'C01'
LEVEL = 'exploration'
RULE = ('encoder boundary: operand tuples of the 66 base mnemonics enumerated as disjoint grids (thorough: the full '
        'cross product registers x complete immediate range); text front end: generated one-instruction-per-line '
        'sources with varied register/integer spellings and both base+offset syntaxes, bytes attributed per line '
        'through the blob stream.  A case is non-trivial when the real encoder returned a word for it (so the decoder '
        'postcondition was actually evaluated); distinct = distinct operand tuples (grids are disjoint by construction '
        'or de-duplicated with a set) / distinct source lines.')
ASSUMPTIONS = ['reference decoder bbv/refmodel/rv.py is a faithful reading of the RISC-V unprivileged spec '
               '(cross-validated against llvm-mc by tools/validate_refmodel.py)',
               'operand order and spellings as documented in docs/instruction_reference.rst']

R = list(range(32))
BASE = operands.BASE
IMM8 = {
    'I': [-2048, -1366, -1, 0, 1, 0x555, 0x2aa, 2047],
    'B': [-4096, -0xaaa, -2, 0, 2, 0xaaa, 0x554, 4094],
}


def fmt_class(m):
    f = operands.FORMATS[m]
    if m in operands.ATOMICS:
        return 'A'
    if m == 'fence':
        return 'F'
    if len(f) == 0:
        return 'E'
    if m in ('lui', 'auipc'):
        return 'U'
    if m == 'jal':
        return 'J'
    if m in ('beq', 'bne', 'blt', 'bge', 'bltu', 'bgeu'):
        return 'B'
    if m in ('sb', 'sh', 'sw'):
        return 'S'
    if m in ('slli', 'srli', 'srai'):
        return 'SH'
    if f == operands.R3:
        return 'R'
    if m.startswith('csr'):
        return 'CSR'
    return 'I'   # incl. jalr (even only)


def imm_domain(m):
    """complete legal + unspecified-spelling immediate domain of the mnemonic's last operand"""
    c = fmt_class(m)
    if m == 'jalr':
        return range(-2048, 2048)      # the I format's complete range; the assembler documents odd offsets as refused (then nothing is judged)
    if c in ('I', 'S'):
        return range(-2048, 2048)
    if c == 'CSR':
        return range(-2048, 4096)      # 0..0xfff are the CSR numbers; negatives = the older spelling of 0x800..0xfff
    if c == 'B':
        return range(-4096, 4096, 2)
    if c == 'U':
        return range(-0x80000, 0x100000)
    if c == 'J':
        return range(-(1 << 20), 1 << 20, 2)
    raise KeyError(m)


# ------------------------------------------------------------------------------------------------
# encoder-boundary enumeration

def check_tuple(asm, acc, m, f, args, kw=None):
    """one monitored encoder execution"""
    acc['n'] += 1
    try:
        w = f(*args, **(kw or {}))
    except ValueError:
        acc['ctr']['refused:' + m] += 1
        return False
    status, exp = operands.expected(m, args, **(kw or {}))
    dec = monitors.decode_any(m, w)
    acc['ctr']['enc:' + m] += 1
    if status == operands.REJECT:
        # out-of-range acceptance is C06's business; C01 only asks whether the accepted tuple got a word of its own
        named = dict(zip(operands.FIELDS[m], args), name=m)
        raw = rv.decode32(w) if isinstance(w, int) and 0 <= w <= 0xffffffff else None
        if raw is not None and all(isinstance(v, int) for v in args) and not kw and fmt_class(m) in ('I', 'S', 'B', 'J') and raw != named:
            core.add_viol(acc, 'encoder %s%r accepted and -> %#010x, which decodes to %r: the word of a different operand tuple' % (m, tuple(args), w, raw),
                          {'kind': 'enc1', 'm': m, 'args': list(args), 'kw': kw or {}}, {'word': w, 'decoded': raw, 'named': named})
        return True
    if dec != exp:
        core.add_viol(acc, 'encoder %s%r %r -> %#010x decodes to %r, the operands named %r' % (m, tuple(args), kw or {}, w, dec, exp),
                      {'kind': 'enc1', 'm': m, 'args': list(args), 'kw': kw or {}}, {'word': w, 'decoded': dec, 'expected': exp})
    return True


def grid(asm, acc, m, doms, deadline, kws=(None,), dedupe=None):
    f = asm.INSTRUCTIONS[m]
    fields = operands.FIELDS[m]
    c = fmt_class(m)
    decode32 = rv.decode32
    n = ok = 0
    bad = 0
    # fast path: build the expected dict inline (same canonicalisation as operands.expected, which is used
    # for the slow path on any mismatch so that both agree)
    for kw in kws:
        for tup in itertools.product(*doms):
            if dedupe is not None:
                key = (tup, kw and tuple(sorted(kw.items())))
                if key in dedupe:
                    continue
                dedupe.add(key)
            n += 1
            try:
                w = f(*tup, **kw) if kw else f(*tup)
            except ValueError:
                acc['ctr']['refused:' + m] += 1
                continue
            d = decode32(w) if isinstance(w, int) and 0 <= w <= 0xffffffff else None
            exp = dict(zip(fields, tup))
            exp['name'] = m
            if c == 'CSR':
                exp['csr'] &= 0xfff
            elif c == 'U':
                if exp['imm'] >= 0x80000:
                    exp['imm'] -= 1 << 20
            elif c == 'F':
                exp['fm'] = 0
                exp['rd'] = 0
                exp['rs1'] = 0
            elif c == 'A':
                exp['aq'] = kw['aq']
                exp['rl'] = kw['rl']
                if m == 'lr.w':
                    exp['rs2'] = 0
            elif c == 'E' and m == 'fence.i':
                exp.update(rd=0, rs1=0, imm=0)
            if d == exp:
                ok += 1
                if ok == 1:
                    core.add_sample(acc, {'encoder_call': '%s%r %s' % (m, tup, kw or ''), 'word': '%#010x' % w, 'decoded': d})
            else:
                # slow path decides
                st, e2 = operands.expected(m, tup, **(kw or {}))
                if st != operands.REJECT and monitors.decode_any(m, w) != e2:
                    bad += 1
                    core.add_viol(acc, 'encoder %s%r %r -> %r decodes to %r, the operands named %r' % (m, tup, kw or {}, w, d, e2),
                                  {'kind': 'enc1', 'm': m, 'args': list(tup), 'kw': kw or {}}, {'word': w, 'decoded': d, 'expected': e2})
                elif st != operands.REJECT:
                    ok += 1
                elif d is not None and all(isinstance(v, int) for v in tup) and not kw and c in ('I', 'S', 'B', 'J'):
                    # the operand model says "not representable", the encoder accepted it anyway (C06 reports that) - and the word
                    # does not even decode to what was named: another operand tuple of this mnemonic owns this word
                    bad += 1
                    core.add_viol(acc, 'encoder %s%r %r accepted and -> %#010x, which decodes to %r: the word of a different operand tuple' % (m, tup, kw or {}, w, d),
                                  {'kind': 'enc1', 'm': m, 'args': list(tup), 'kw': kw or {}}, {'word': w, 'decoded': d, 'named': exp})
        if time.time() > deadline:
            acc['truncated'] += 1
            break
    acc['n'] += n
    acc['nt'] += ok + bad
    acc['ctr']['enc:' + m] += ok + bad
    return n


AQRL = [{'aq': a, 'rl': r} for a in (0, 1) for r in (0, 1)]


def enc_shard(asm, acc, sh, deadline):
    m = sh['m']
    c = fmt_class(m)
    core.see(acc, 'mnemonics_enc', m)
    if sh['mode'] == 'full':
        # the property's quantifier: registers x complete immediate range (sharded by first register)
        r0 = sh['r0']
        if c == 'R':
            grid(asm, acc, m, [r0, R, R], deadline)
        elif c == 'SH':
            grid(asm, acc, m, [r0, R, R], deadline)
        elif c in ('I', 'CSR', 'S', 'B'):
            grid(asm, acc, m, [r0, R, imm_domain(m)], deadline)
        elif c in ('U', 'J'):
            grid(asm, acc, m, [r0, imm_domain(m)], deadline)
        elif c == 'F':
            grid(asm, acc, m, [range(16), range(16)], deadline)
        elif c == 'A':
            doms = [r0, R] if m == 'lr.w' else [r0, R, R]
            grid(asm, acc, m, doms, deadline, kws=AQRL)
        elif c == 'E':
            grid(asm, acc, m, [], deadline)
        return
    # quick plan: several sub-grids, de-duplicated with a set
    rng = random.Random('c01-%s-%d' % (m, sh['seed']))
    seen = set()
    pairs6 = [(0, 0), (31, 31), (0, 31), (31, 0)] + [(rng.randrange(32), rng.randrange(32)) for _ in range(2)]
    if c in ('R', 'SH'):
        grid(asm, acc, m, [R, R, R], deadline)
    elif c in ('I', 'CSR', 'S', 'B'):
        dom = imm_domain(m)
        for a, b in pairs6:
            grid(asm, acc, m, [[a], [b], dom], deadline, dedupe=seen)
        imm8 = [v for v in IMM8['B' if c == 'B' else 'I'] if v in dom]
        grid(asm, acc, m, [R, R, imm8[:3]], deadline, dedupe=seen)
        grid(asm, acc, m, [R, [rng.randrange(32)], imm8], deadline, dedupe=seen)
        grid(asm, acc, m, [[rng.randrange(32)], R, imm8], deadline, dedupe=seen)
    elif c in ('U', 'J'):
        # complete immediate range once, the register walking with it so every rd is used
        f = asm.INSTRUCTIONS[m]
        dom = imm_domain(m)
        k = rng.randrange(32)
        n = 0
        for imm in dom:
            rd = (imm * 7 + k) & 31
            n += 1
            try:
                w = f(rd, imm)
            except ValueError:
                acc['ctr']['refused:' + m] += 1
                continue
            d = rv.decode32(w) if isinstance(w, int) and 0 <= w <= 0xffffffff else None
            e = imm - (1 << 20) if (c == 'U' and imm >= 0x80000) else imm
            if d == {'name': m, 'rd': rd, 'imm': e}:
                acc['nt'] += 1
            else:
                acc['nt'] += 1
                core.add_viol(acc, 'encoder %s(%d, %d) -> %r decodes to %r' % (m, rd, imm, w, d),
                              {'kind': 'enc1', 'm': m, 'args': [rd, imm], 'kw': {}}, {'word': w, 'decoded': d})
        acc['n'] += n
        acc['ctr']['enc:' + m] += n
        grid(asm, acc, m, [R, [-0x80000, -1, 0, 1, 0x55555, 0x2aaaa, 0x7ffff] if c == 'U' else [-(1 << 20), -2, 0, 2, 0xaaaaa, 0x55554, (1 << 20) - 2]], deadline, dedupe=seen)
    elif c == 'F':
        grid(asm, acc, m, [range(16), range(16)], deadline)
    elif c == 'A':
        rs = [0, 1, 2, 5, 8, 15, 16, 30, 31]
        doms = [R, R] if m == 'lr.w' else [rs, rs, R]
        grid(asm, acc, m, doms, deadline, kws=AQRL)
    elif c == 'E':
        grid(asm, acc, m, [], deadline)


# ------------------------------------------------------------------------------------------------
# text front end

def spell_reg(rng, n):
    k = rng.randrange(4)
    if k == 0:
        return str(n)
    if k == 1:
        return 'x%d' % n
    if k == 2:
        return operands.ABI[n]
    return 'fp' if n == 8 else operands.ABI[n]


def spell_int(rng, v, paren_ok=False):
    k = rng.randrange(5 if paren_ok else 4)
    if paren_ok and rng.random() < 0.2:
        from ..gen import exprs
        return exprs.spell_value(rng, v)     # a derived quantity: `N // D`, `A - B`, `X >> S`, `~Y` ... with the same value
    if paren_ok and 33 <= v <= 126 and chr(v) not in "'\\" and rng.random() < 0.3:
        return "'%s'" % chr(v)              # a character literal is an integer expression of its own
    if paren_ok and rng.random() < 0.1:
        return rng.choice(['+%d' % v if v >= 0 else str(v), ('0o%o' % v) if v >= 0 else '-0o%o' % -v, ('%d' % v if abs(v) < 1000 else ('%d_%03d' % (abs(v) // 1000, abs(v) % 1000) if v > 0 else '-%d_%03d' % (abs(v) // 1000, abs(v) % 1000)))])
    if k == 0:
        return str(v)
    if k == 4:
        return rng.choice(['(%d)', '( %d )', '(%d + 0)']) % v      # an immediate is an expression; parentheses are documented there
    s = hex(abs(v)) if k in (1, 3) else bin(abs(v))
    if k == 3:
        s = '0x' + s[2:].upper()
    return ('-' if v < 0 else '') + s


BASE_OFFSET = {'jalr', 'lb', 'lh', 'lw', 'lbu', 'lhu', 'sb', 'sh', 'sw'}


def text_line(rng, m, tup, kw):
    """render (m, tup) as a source line by the documented syntax, with spelling freedoms"""
    c = fmt_class(m)
    sep = lambda: rng.choice([', ', ' ', ',', ' , '])   # noqa
    if c == 'E':
        return m
    if c in ('R',):
        ops = [spell_reg(rng, r) for r in tup]
    elif c == 'SH':
        ops = [spell_reg(rng, tup[0]), spell_reg(rng, tup[1]), spell_int(rng, tup[2])]
    elif c in ('I', 'CSR'):
        rd, rs1, imm = tup
        if m.endswith('i') and m.startswith('csr'):
            ops = [spell_reg(rng, rd), spell_int(rng, rs1), spell_int(rng, imm)]
        elif m in BASE_OFFSET and rng.random() < 0.5:
            return '%s %s%s%s(%s)' % (m, spell_reg(rng, rd), sep(), spell_int(rng, imm), spell_reg(rng, rs1))
        else:
            ops = [spell_reg(rng, rd), spell_reg(rng, rs1), spell_int(rng, imm, paren_ok=m not in BASE_OFFSET)]
    elif c == 'S':
        rs1, rs2, imm = tup
        if rng.random() < 0.5:
            return '%s %s%s%s(%s)' % (m, spell_reg(rng, rs2), sep(), spell_int(rng, imm), spell_reg(rng, rs1))
        ops = [spell_reg(rng, rs1), spell_reg(rng, rs2), spell_int(rng, imm)]
    elif c == 'B':
        ops = [spell_reg(rng, tup[0]), spell_reg(rng, tup[1]), spell_int(rng, tup[2])]
    elif c in ('U', 'J'):
        ops = [spell_reg(rng, tup[0]), spell_int(rng, tup[1], paren_ok=c == 'U')]
    elif c == 'F':
        ops = [spell_int(rng, tup[0]), spell_int(rng, tup[1])]
    elif c == 'A':
        ops = [spell_reg(rng, r) for r in tup]
        if kw['aq'] or kw['rl'] or rng.random() < 0.5:
            ops += [spell_int(rng, kw['aq']), spell_int(rng, kw['rl'])]
    s = rng.choice([m, m, m.upper(), m.capitalize()]) + ' ' + ops[0]
    for o in ops[1:]:
        s += sep() + o
    return s


def rand_tuple(rng, m, full_imm=None):
    c = fmt_class(m)
    r = lambda: rng.choice([0, 1, 2, 8, 15, 31, rng.randrange(32), rng.randrange(32)])  # noqa
    kw = None
    if c == 'E':
        tup = ()
    elif c in ('R', 'SH'):
        tup = (r(), r(), rng.randrange(32))
    elif c in ('I', 'CSR', 'S', 'B', 'U', 'J'):
        dom = imm_domain(m)
        if full_imm is not None:
            imm = full_imm
        else:
            imm = rng.choice([dom[0], dom[-1], 0, dom[rng.randrange(len(dom))], dom[rng.randrange(len(dom))]])
        if c == 'CSR' and imm < 0 and rng.random() < 0.0:
            imm = -imm
        tup = (r(), imm) if c in ('U', 'J') else (r(), r(), imm)
    elif c == 'F':
        tup = (rng.randrange(16), rng.randrange(16))
    elif c == 'A':
        tup = (r(), r()) if m == 'lr.w' else (r(), r(), r())
        kw = {'aq': rng.randrange(2), 'rl': rng.randrange(2)}
    return tup, kw


ALIAS_DEFS = ['RA%d = %s' % (n, [str(n), 'x%d' % n, operands.ABI[n]][n % 3]) for n in range(32)]


def alias_some(rng, line):
    """replace some xN register spellings of a rendered line by register-alias constants (documented: `W = s0`)"""
    import re

    def sub(mo):
        return 'RA%s' % mo.group(1) if rng.random() < 0.5 else mo.group(0)
    return re.sub(r'\bx(\d+)\b', sub, line)


def text_batch(asm, acc, cases, why):
    """cases: [(m, tup, kw, line)] ; assemble as one program, attribute chunks per line, decode"""
    lines = [c[3] for c in cases]
    nalias = 0
    if any('RA' in l for l in lines):
        # the alias definitions go first; chunks are attributed by line, so shift the index
        nalias = len(ALIAS_DEFS)
        lines = ALIAS_DEFS + lines
    # every third batch: the caller's label table is left over from other programs and holds names spelled like registers (labels
    # may be called anything) - in a register position a register name is a register
    preseed = None
    if len(lines) % 3 == 0:
        preseed = {'labels': {'t1': 8, 's1': 12, 'x9': 16, 'a0': 20, 'sp': 24, '5': 28, 'zero': 4, 'x0': 2, 'ra': 40, '31': 6, 'x31': 0, 'fp': 64, 'T6': 10, '0x5': 30}}
        acc['ctr']['text_batches_with_register_named_leftover_labels'] += 1
    with monitors.EncoderMonitor(asm) as mon:
        lay = monitors.layout(asm, lines, preseed=preseed)
    if nalias and lay.chunks is not None:
        lay.chunks = lay.chunks[nalias:]
    acc['ctr']['text_batches'] += 1
    if lay.obs.ok and lay.chunks is not None:
        acc['ctr']['layout_via_' + lay.via] += 1
    if not lay.obs.ok:
        if len(cases) > 1:
            # a refused line: isolate it (refusal of a representable tuple is C06's finding, not C01's)
            mid = len(cases) // 2
            text_batch(asm, acc, cases[:mid], why)
            text_batch(asm, acc, cases[mid:], why)
        else:
            acc['n'] += 1
            acc['ctr']['text_refused:' + cases[0][0]] += 1
        return
    if lay.chunks is None or not lay.order_ok:
        core.add_viol(acc, 'text front end: output is not the in-order concatenation of the lines (%s)' % lay.why,
                      {'kind': 'text', 'cases': [[c[0], list(c[1]), c[2], c[3]] for c in cases]}, {})
        acc['n'] += len(cases)
        return
    for bad in mon.bad:
        name, args, kw, code, dec, exp = bad
        core.add_viol(acc, 'encoder call made by the assembler: %s%r %r -> %r decodes to %r, named %r' % (name, tuple(args), kw, code, dec, exp),
                      {'kind': 'text', 'cases': [[c[0], list(c[1]), c[2], c[3]] for c in cases]}, {})
    acc['ctr']['p3_calls_text'] += sum(mon.calls.values())
    for (m, tup, kw, line), (st, data) in zip(cases, lay.chunks):
        acc['n'] += 1
        core.see(acc, 'mnemonics_text', m)
        status, exp = operands.expected(m, tup, **(kw or {}))
        dec = rv.decode32(int.from_bytes(data, 'little')) if len(data) == 4 else ('chunk of %d bytes' % len(data), data.hex())
        acc['ntkeys'].add(core.ckey(line))
        acc['ctr']['text:' + m] += 1
        if dec != exp:
            core.add_viol(acc, 'source line %r emitted %s which decodes to %r; the line named %r' % (line, data.hex(), dec, exp),
                          {'kind': 'text', 'cases': [[m, list(tup), kw, line]]}, {'bytes': data.hex(), 'decoded': dec, 'expected': exp})
    if len(acc['samples']) < 3:
        core.add_sample(acc, {'text_line': cases[0][3], 'bytes': lay.chunks[0][1].hex(), 'named': operands.expected(cases[0][0], cases[0][1], **(cases[0][2] or {}))[1]})


def text_shard(asm, acc, sh, deadline):
    rng = random.Random('c01-text-%d-%d' % (sh['seed'], sh['idx']))
    batch = []
    todo = sh['lines']
    ms = sh['ms']
    full = sh.get('full_imm_of')
    plan = []
    if full:
        # the complete immediate range of this mnemonic through text
        for imm in imm_domain(full):
            if fmt_class(full) == 'U' and (imm & 0xf) != (sh['idx'] & 0xf):
                continue    # 2^20 values sharded 16 ways
            if fmt_class(full) == 'J' and ((imm >> 1) & 0xf) != (sh['idx'] & 0xf):
                continue
            plan.append((full, imm))
    else:
        for k in range(todo):
            plan.append((ms[k % len(ms)], None))
    for m, imm in plan:
        tup, kw = rand_tuple(rng, m, imm)
        line = variants.comment(rng, text_line(rng, m, tup, kw), 0.25)
        if sh.get('alias') and rng.random() < 0.5:
            line = alias_some(rng, line)
        batch.append((m, tup, kw, line))
        if imm is None and fmt_class(m) in ('I', 'S', 'U', 'B', 'J') and m != 'jalr' and rng.random() < 0.15:
            # twins: the same mnemonic with the same registers in the same spelling, the immediates a step apart (-1 / -2, 0 / 1, the two
            # ends of the range, ...) somewhere in one program: every line is an instruction of its own
            k2 = rng.getrandbits(30)
            dom = imm_domain(m)
            step = dom[1] - dom[0]
            a_imm = rng.choice([-step, -step, 0, dom[0], dom[-1] - step, step])
            for tw in (a_imm, a_imm - step if a_imm - step >= dom[0] else a_imm + step, a_imm):
                t2 = tup[:-1] + (tw,)
                batch.append((m, t2, kw, text_line(random.Random(k2), m, t2, kw).replace('(', ' (') if False else text_line(random.Random(k2), m, t2, kw)))
            acc['ctr']['twin_lines'] += 3
        if len(batch) >= 500:
            text_batch(asm, acc, batch, 'text')
            batch = []
            if time.time() > deadline:
                acc['truncated'] += 1
                break
    if batch:
        text_batch(asm, acc, batch, 'text')


# ------------------------------------------------------------------------------------------------

def run_shard(sh, deadline):
    asm = core.load_asm()
    acc = core.new_acc()
    if sh['kind'] == 'enc':
        enc_shard(asm, acc, sh, deadline)
        core.add_sample(acc, {'encoder_grid': sh['m'], 'mode': sh['mode'], 'executions_in_shard': acc['n']})
    else:
        text_shard(asm, acc, sh, deadline)
    return acc


def plan(tier, seed):
    shards = []
    if tier == 'quick':
        for m in BASE:
            shards.append({'kind': 'enc', 'mode': 'quick', 'm': m, 'seed': seed})
        for i in range(16):
            shards.append({'kind': 'text', 'ms': BASE, 'lines': 3200, 'seed': seed, 'idx': i, 'alias': i % 4 == 3})
        shards.sort(key=lambda s: 0 if (s['kind'] == 'enc' and fmt_class(s['m']) in 'UJ') else 1)
        return {'shards': shards, 'budget_s': 120, 'exhaustive': False}
    for m in BASE:
        c = fmt_class(m)
        if c in ('F', 'E'):
            shards.append({'kind': 'enc', 'mode': 'full', 'm': m, 'r0': None, 'seed': seed})
        elif c in ('R', 'SH', 'A'):
            for r0 in ([R[:16], R[16:]] if c != 'A' else [R[i:i + 4] for i in range(0, 32, 4)]):
                shards.append({'kind': 'enc', 'mode': 'full', 'm': m, 'r0': r0, 'seed': seed})
        elif c in ('U', 'J'):
            for r in R:
                shards.append({'kind': 'enc', 'mode': 'full', 'm': m, 'r0': [r], 'seed': seed})
        else:
            for i in range(0, 32, 4):
                shards.append({'kind': 'enc', 'mode': 'full', 'm': m, 'r0': R[i:i + 4], 'seed': seed})
    # text: complete I/S/B immediate ranges per mnemonic, plus random lines for everything
    for m in BASE:
        c = fmt_class(m)
        if c in ('I', 'CSR', 'S', 'B'):
            shards.append({'kind': 'text', 'ms': [m], 'lines': 0, 'full_imm_of': m, 'seed': seed, 'idx': 0})
        elif c in ('U', 'J'):
            for i in range(16):
                shards.append({'kind': 'text', 'ms': [m], 'lines': 0, 'full_imm_of': m, 'seed': seed, 'idx': i})
    for i in range(32):
        shards.append({'kind': 'text', 'ms': BASE, 'lines': 20000, 'seed': seed, 'idx': 100 + i, 'alias': i % 4 == 3})
    # biggest first
    shards.sort(key=lambda s: -(1 << 20 if s['kind'] == 'enc' and fmt_class(s['m']) in 'UJ' else 1))
    return {'shards': shards, 'budget_s': 1500, 'exhaustive': True}


def gates(acc, tier):
    g = []
    enc = acc['seen'].get('mnemonics_enc', set())
    txt = acc['seen'].get('mnemonics_text', set())
    if len(enc) != 66:
        g.append('encoder path exercised %d/66 mnemonics' % len(enc))
    if len(txt) != 66:
        g.append('text path exercised %d/66 mnemonics (missing %s)' % (len(txt), sorted(set(BASE) - txt)[:5]))
    for m in BASE:
        if acc['ctr'].get('enc:' + m, 0) == 0:
            g.append('decoder postcondition never evaluated for %s (encoder path)' % m)
        if acc['ctr'].get('text:' + m, 0) == 0:
            g.append('no assembled text line for %s' % m)
    if acc['ctr'].get('p3_calls_text', 0) == 0:
        g.append('encoder monitor saw no call made by the assembler (P3 not reached on the text path)')
    return g[:8]


def post(acc, tier):
    return {'encoder_executions_monitored': sum(v for k, v in acc['ctr'].items() if k.startswith('enc:')),
            'text_lines_decoded': sum(v for k, v in acc['ctr'].items() if k.startswith('text:')),
            'legal_tuples_refused': sum(v for k, v in acc['ctr'].items() if k.startswith('refused:') or k.startswith('text_refused:'))}


def replay(case):
    asm = core.load_asm()
    acc = core.new_acc()
    if case['kind'] == 'enc1':
        m = case['m']
        if check_tuple(asm, acc, m, asm.INSTRUCTIONS[m], case['args'], case.get('kw') or None):
            acc['nt'] += 1
    else:
        cases = [(c[0], tuple(c[1]), c[2], c[3]) for c in case['cases']]
        text_batch(asm, acc, cases, 'replay')
    return acc
