"""C03 - control transfers land on their label; the label table is exact.  DESIGN.md section 4 / C03.

Oracle: the label's true offset comes from the blob stream (where the bytes actually ended up); the transfer is
decoded / executed by the reference model from the chunk of its own line (sem.py).
"""
import os
import random
import subprocess
import sys
import tempfile
import time

from .. import core, monitors, progcheck, sem
from ..gen import program as P, randprog

ID = 'C03'
LEVEL = 'exploration'
RULE = ('distance sweep: transfer kind x direction x final distance class x filler kind x compress, the inert gap adjusted until '
        'the *measured* final distance equals the class; random programs with several labels, all transfer kinds and label-moving '
        'items in between.  Every transfer item of every assembled build is judged (decoded target / executed pc vs. the label '
        'offset taken from the blob stream) and the reported label table is compared with those offsets.  Non-trivial = an '
        'assembled build containing at least one judged transfer; distinct by (program text, compress).')
ASSUMPTIONS = ['reference decoder / ISS (refmodel) per the RISC-V spec', 'label offsets derived from the blob stream observed at '
               'asm.resolve_blobs (fallback: fence labels through the public API)']

DISTS = [0, 2, 4, 254, 256, 258, 2046, 2048, 2050, 4094, 4096, 4098, (1 << 20) - 2, 1 << 20, (1 << 20) + 2, (1 << 20) + 2046,
         (1 << 20) + 2048, (1 << 20) + 4096, 3 << 20]
FILLERS = ['gap', 'comp', 'li', 'call', 'align', 'mix']
XFERS = ([('b', m) for m in randprog.BRANCHES] + [('bz', 'beq'), ('bz', 'bne')] + [('jal', 0), ('jal', 1), ('jal', 5)] +
         [('p', m) for m in ['j', 'jal', 'call', 'tail'] + randprog.PBRANCH1 + randprog.PBRANCH2] +
         [('c', m) for m in ['c.j', 'c.jal', 'c.beqz', 'c.bnez']])


def reach(x):
    kind, m = x
    if kind in ('b', 'bz') or (kind == 'p' and m in randprog.PBRANCH1 + randprog.PBRANCH2):
        return (-4096, 4094)
    if kind == 'jal' or (kind == 'p' and m in ('j', 'jal')):
        return (-(1 << 20), (1 << 20) - 2)
    if kind == 'c' and m in ('c.j', 'c.jal'):
        return (-2048, 2046)
    if kind == 'c':
        return (-256, 254)
    return (-(1 << 31), (1 << 31) - 1)


def xfer_item(x, L):
    kind, m = x
    t = {'t': L}
    if kind == 'b':
        return {'k': 'inst', 'm': m, 'ops': [{'r': 5}, {'r': 6}, t]}
    if kind == 'bz':
        return {'k': 'inst', 'm': m, 'ops': [{'r': 9}, {'r': 0}, t]}
    if kind == 'jal':
        return {'k': 'inst', 'm': 'jal', 'ops': [{'r': m}, t]}
    if kind == 'c':
        return {'k': 'inst', 'm': m, 'ops': ([{'r': 9}] if 'z' in m else []) + [t]}
    if m in randprog.PBRANCH1:
        return {'k': 'pseudo', 'm': m, 'ops': [{'r': 9}, t]}
    if m in randprog.PBRANCH2:
        return {'k': 'pseudo', 'm': m, 'ops': [{'r': 5}, {'r': 6}, t]}
    return {'k': 'pseudo', 'm': m, 'ops': [t]}


def filler_items(rng, kind, budget):
    """label-moving items with a pessimistic size of at most `budget` bytes"""
    items = []
    used = 0
    n = 0
    while n < 12:
        k = kind if kind != 'mix' else rng.choice(['comp', 'li', 'call', 'align', 'data'])
        if k == 'comp':
            it = randprog.plain_inst(rng, 1.0)
            sz = 4
        elif k == 'li':
            it = {'k': 'pseudo', 'm': 'li', 'ops': [{'r': rng.choice([5, 8, 15])}, {'i': rng.choice([0, 7, 31, -32, 2047, -2048, 0x12345, 0x7ffff000])}]}
            sz = 8
        elif k == 'call':
            it = {'k': 'pseudo', 'm': rng.choice(['call', 'tail']), 'ops': [{'t': 'NEAR'}]}
            sz = 8
        elif k == 'align':
            it = {'k': 'align', 'n': rng.choice([2, 4, 8, 16, 32])}
            sz = it['n']
        elif k == 'data':
            it = {'k': 'seq', 'd': 'shorts', 'vals': [rng.randrange(65536) for _ in range(rng.randint(1, 3))]}
            sz = 2 * len(it['vals'])
        else:
            break
        if used + sz > budget:
            break
        items.append(it)
        used += sz
        n += 1
    return items


def build_sweep(case, gap):
    rng = random.Random('c03-sweep-%r' % (sorted((k, v) for k, v in case.items() if k in ('x', 'dir', 'D', 'filler', 'compress', 'pre')),))
    x = tuple(case['x'])
    D = case['D']
    X = xfer_item(x, 'T')
    maxx = 8 if x[1] in ('call', 'tail') and x[0] == 'p' else 4
    pre = [{'k': 'label', 'name': 'NEAR'}, {'k': 'pseudo', 'm': 'nop', 'ops': []}]
    if case.get('pre'):
        pre += [randprog.plain_inst(rng, 0.5) for _ in range(case['pre'])]
    landing = {'k': 'inst', 'm': 'addi', 'ops': [{'r': 0}, {'r': 0}, {'i': 0}]}
    if case['dir'] == 'fwd':
        budget = max(0, D - maxx)
        fill = filler_items(rng, case['filler'], budget) if case['filler'] != 'gap' else []
        items = pre + [X] + fill
        if gap:
            items.append({'k': 'gap', 'n': gap})
        items += [{'k': 'label', 'name': 'T'}, landing]
    else:
        budget = D
        fill = filler_items(rng, case['filler'], budget) if case['filler'] != 'gap' else []
        items = pre + [{'k': 'label', 'name': 'T'}] + fill
        if gap:
            items.append({'k': 'gap', 'n': gap})
        items += [X, landing]
    return items, X


def measure(asm, items, X, compress):
    ex = progcheck.examine(asm, items, compress, judge=False)
    if not ex.ok or ex.labels_true is None:
        return ex, None
    xi = next(i for i, it in enumerate(items) if it is X)
    return ex, ex.labels_true['T'] - ex.lay.chunks[xi][0]


def run_sweep_case(asm, acc, case):
    acc['n'] += 1
    x = tuple(case['x'])
    D = case['D']
    sign = 1 if case['dir'] == 'fwd' else -1
    compress = case['compress']
    lo, hi = reach(x)
    reachable = lo <= sign * D <= hi
    cell = '%s/%s/%d/%s' % ('%s:%s' % x, case['dir'], D, 'c' if compress else 'u')
    # converge the gap so that the measured final distance is D
    gap = case.get('gap')
    if gap is None:
        gap = 0
        for _ in range(4):
            items, X = build_sweep(case, gap)
            ex, dist = measure(asm, items, X, compress)
            if dist is None:
                if _ > 0 and not case.get('_shrunk') and gap >= 2:
                    # the transfer itself may have grown by 2 once the target moved out of RVC reach: retry 2 bytes closer
                    case = dict(case, _shrunk=True)
                    gap -= 2
                    continue
                break                      # refused at this gap: judged below as a refusal of the final program
            delta = D - sign * dist
            if delta == 0:
                break
            if gap + delta < 0 or (gap + delta) % 2:
                if case['filler'] != 'gap':
                    acc['ctr']['filler_degraded'] += 1     # unattainable with this filler: use the inert gap (recorded)
                    acc['n'] -= 1
                    return run_sweep_case(asm, acc, dict(case, filler='gap'))
                acc['ctr']['distance_not_reachable'] += 1
                return
            gap += delta
    items, X = build_sweep(case, gap)
    ex = progcheck.examine(asm, items, compress, seed=cell)
    rcase = dict({k: v for k, v in case.items() if k != '_shrunk'}, gap=gap, kind='sweep')
    if not ex.ok:
        if reachable:
            acc['ctr']['refused_reachable'] += 1
            core.see(acc, 'refused_reachable_cells', cell + ':' + ex.exc['msg'][:40])
            # "wherever the label lies": a target inside the reach of the transfer cannot be turned down.  The build that was refused
            # may not have the distance D (the gap search stops at a refusal), so the witness must come from the refusal itself:
            # call / tail reach every 32-bit distance; for the others the offset named in the message must lie inside the reach
            import re
            mo = re.search(r': (-?\d+)$', ex.exc['msg'].strip())
            named = int(mo.group(1)) if mo else None
            if x[1] in ('call', 'tail') or (named is not None and lo <= named <= hi and named % 2 == 0):
                core.add_viol(acc, 'transfer %s to a label (compress=%s, reach %d..%d) is refused: %s' % (
                    '%s:%s' % x, compress, lo, hi, ex.exc['msg'][:120]), rcase, {'lines': [l[:80] for l in ex.lines][:12]})
            else:
                acc['ctr']['refused_while_searching_the_gap'] += 1
        else:
            acc['ctr']['refused_unreachable'] += 1
        return
    if ex.layout_problem:
        core.add_viol(acc, 'layout: ' + ex.layout_problem, rcase, {'lines': [l[:80] for l in ex.lines]})
        return
    xi = next(i for i, it in enumerate(items) if it is X)
    dist = ex.labels_true['T'] - ex.lay.chunks[xi][0]
    if dist != sign * D:
        acc['ctr']['distance_not_reached'] += 1
        return
    acc['ntkeys'].add(core.ckey(cell, case['filler']))
    core.see(acc, 'cells_assembled', cell)
    acc['ctr']['sweep_assembled'] += 1
    judge_exam(acc, ex, rcase, only_transfers=True)
    if acc['ctr']['sweep_assembled'] <= 2:
        core.add_sample(acc, {'sweep_case': cell, 'filler': case['filler'], 'gap': gap, 'transfer_line': ex.lines[xi],
                              'transfer_bytes': ex.lay.chunks[xi][1].hex(), 'label_T': ex.labels_true['T']})


def judge_exam(acc, ex, rcase, only_transfers):
    nj = 0
    for idx, it, st, data, probs, info in ex.per_item:
        if not progcheck.is_transfer(it):
            continue
        nj += 1
        acc['ctr']['transfers_judged'] += 1
        core.see(acc, 'transfer_forms', it['m'] + ('/' + '+'.join(info.get('forms', [])) if info.get('forms') else ('/' + str(info.get('rvc')) if info.get('rvc') else '')))
        for p in probs:
            core.add_viol(acc, 'transfer `%s` at offset %d (compress=%s) does not land on its label (%s at %d): %s' % (
                P.r_item(it), st, rcase.get('compress'), it['ops'][-1]['t'], ex.labels_true[it['ops'][-1]['t']], p), rcase,
                {'bytes': data.hex(), 'line': idx + 1}, key=classify_item(it, info, rcase))
    for p in progcheck.label_table_problems(ex):
        core.add_viol(acc, 'label table (compress=%s): %s' % (rcase.get('compress'), p), rcase, {})
    acc['ctr']['labels_checked'] += len(ex.labels_true)
    return nj


def classify_item(it, info, rcase):
    return None


# ------------------------------------------------------------------------------------------
# random programs

CFG = dict(w_xfer=30, w_inst=22, w_li=10, w_pseudo=6, w_align=8, w_gap=4, w_labimm=3, w_data=6, labels=(2, 7), n=(3, 60))


def far_family(rng):
    """several far (> 1 MiB) call / tail expansions early in the program, then shrinking pseudo-instructions each immediately
    followed by a label that later transfers target: the running position of the expansion pass has to stay exact across
    every two-instruction expansion"""
    items = [{'k': 'label', 'name': 'L0'}, {'k': 'pseudo', 'm': 'nop', 'ops': []}]
    nl = 1
    labels = ['L0']
    for _ in range(rng.randint(1, 5)):
        items.append({'k': 'pseudo', 'm': rng.choice(['call', 'call', 'tail']), 'ops': [{'t': 'FAR'}]})
        if rng.random() < 0.4:
            items.append(randprog.plain_inst(rng, 0.7))
    for _ in range(rng.randint(2, 8)):
        c = rng.random()
        if c < 0.4:
            items.append({'k': 'pseudo', 'm': 'li', 'ops': [randprog.R(rng), {'i': rng.choice([0, 5, 31, -32, 2047, -2048, 0x12345])}]})
        elif c < 0.7:
            items.append({'k': 'pseudo', 'm': rng.choice(['call', 'tail']), 'ops': [{'t': rng.choice(labels)}]})
        elif c < 0.85:
            items.append({'k': 'pseudo', 'm': rng.choice(['call', 'tail']), 'ops': [{'t': 'FAR'}]})
        else:
            items.append(randprog.plain_inst(rng, 0.8))
        if rng.random() < 0.7:
            name = 'L%d' % nl
            nl += 1
            labels.append(name)
            items.append({'k': 'label', 'name': name})
    for _ in range(rng.randint(2, 6)):
        L = rng.choice(labels)
        k = rng.randrange(5)
        if k == 0:
            items.append({'k': 'pseudo', 'm': 'j', 'ops': [{'t': L}]})
        elif k == 1:
            items.append({'k': 'pseudo', 'm': rng.choice(randprog.PBRANCH1), 'ops': [randprog.Rc(rng), {'t': L}]})
        elif k == 2:
            items.append({'k': 'inst', 'm': rng.choice(randprog.BRANCHES), 'ops': [randprog.R(rng), randprog.R(rng), {'t': L}]})
        elif k == 3:
            items.append({'k': 'pseudo', 'm': 'call', 'ops': [{'t': L}]})
        else:
            items.append({'k': 'inst', 'm': 'jal', 'ops': [{'r': rng.choice([0, 1])}, {'t': L}]})
    items.append({'k': 'gap', 'n': rng.choice([1 << 20, (1 << 20) + 4096, (1 << 20) + 2 * rng.randrange(0, 3000)])})
    items += [{'k': 'label', 'name': 'FAR'}, {'k': 'pseudo', 'm': 'ret', 'ops': []}]
    if rng.random() < 0.5:
        items += [{'k': 'pseudo', 'm': 'call', 'ops': [{'t': rng.choice(labels)}]}, {'k': 'pseudo', 'm': 'tail', 'ops': [{'t': 'L0'}]}]
    return items


def presentation(rng, items, idx):
    """how the same structure is handed to the assembler: canonical text; accepted syntax variations and CR LF line ends;
    a labels table that is re-used from an earlier build (stale values of the same names, in another order) plus an
    external symbol"""
    from ..gen import variants
    lines = P.render(items)
    eol = '\n'
    preseed = None
    mode = idx % 6
    if mode == 1:
        lines = variants.vary(rng, items, lines)
        eol = rng.choice(['\n', '\r\n'])
    elif mode == 2:
        names = [it['name'] for it in items if it['k'] == 'label']
        rng.shuffle(names)
        preseed = {'labels': dict([(n, rng.randrange(0, 5000) * 2) for n in names] + [('EXT_SYM', 0x20000000)])}
    elif mode == 4 and idx % 12 == 4 and not any('EXT_SYM' in l for l in lines):
        # a caller that never passes tables, after an earlier build by such a caller in which this program's label names were constants
        names = list(dict.fromkeys(it['name'] for it in items if it['k'] == 'label'))
        preseed = {'notables': True, 'earlier': ''.join('%s = %d\n' % (n, 2 * rng.randrange(1, 600)) for n in names) + 'nop\n'}
    return lines, eol, preseed


def many_program(rng, n=1200):
    """over a thousand labels, each in front of an item that shrinks or not, transfers criss-crossing between them"""
    items = []
    for k in range(n):
        items.append({'k': 'label', 'name': 'M%d' % k})
        c = rng.random()
        if c < 0.45:
            items.append({'k': 'inst', 'm': 'addi', 'ops': [{'r': 8}, {'r': 8}, {'i': 1}]})
        elif c < 0.65:
            items.append({'k': 'pseudo', 'm': 'li', 'ops': [{'r': rng.choice([5, 9, 15])}, {'i': rng.choice([1, -7, 2047, 0x12345])}]})
        elif c < 0.8:
            t = {'t': 'M%d' % rng.randrange(n)}
            items.append(rng.choice([{'k': 'pseudo', 'm': 'j', 'ops': [t]}, {'k': 'inst', 'm': 'jal', 'ops': [{'r': 1}, t]}, {'k': 'pseudo', 'm': 'call', 'ops': [t]},
                                     {'k': 'pseudo', 'm': 'tail', 'ops': [t]}]))
        elif c < 0.85:
            items.append({'k': 'align', 'n': rng.choice([4, 8])})
        else:
            t = {'t': 'M%d' % max(0, min(n - 1, k + rng.randrange(-20, 21)))}
            items.append(rng.choice([{'k': 'pseudo', 'm': 'beqz', 'ops': [{'r': rng.choice([8, 5])}, t]}, {'k': 'inst', 'm': 'bne', 'ops': [{'r': 9}, {'r': 0}, t]}]))
    items.append({'k': 'pseudo', 'm': 'ret', 'ops': []})
    return items


def run_random(asm, acc, seed, idx, trace=False):
    rng = random.Random('c03-rand-%d-%d' % (seed, idx))
    items = far_family(rng) if idx % 8 == 5 else randprog.gen(rng, CFG)
    if idx % 400 == 399:
        items = many_program(rng)
        acc['ctr']['programs_with_over_a_thousand_labels'] += 1
    if idx % 5 == 2:
        # label names that are not ASCII words (identifiers in the sense of the language the assembler is written in all the same)
        pool = ['\u00e4hnlich', '\u03c0', '\u0446\u0438\u043a\u043b', 'gr\u00f6\u00dfe', '\u03a9mega', '\u00e9t\u00e9', '\u00f1u', '\u0142oop', '_\u00fc', 'x\u00e9']
        names = [it['name'] for it in items if it['k'] == 'label']
        rng2 = random.Random('c03-names-%d' % idx)
        mp = {n: rng2.choice(pool) + ('%d' % k if k >= 0 else '') for k, n in enumerate(dict.fromkeys(names))}
        items = P.rename_labels(items, mp)
        acc['ctr']['programs_with_non_ascii_label_names'] += 1
    if idx % 5 == 3 and all(progcheck.is_transfer(it) or not P.label_dependent(it.get('ops') or ([it['val']] if 'val' in it else []))
                            for it in items if it['k'] in ('inst', 'pseudo', 'data', 'pack')):
        # labels may be called anything, also what a register is called: in a *target* position a name is a location
        pool = ['s0', 'a0', 't1', 'sp', 'x12', 'ra', 'fp', 'zero', 'x0', 't6', 'gp', 'a7', 's11', 'x31', 'tp']
        names = list(dict.fromkeys(it['name'] for it in items if it['k'] == 'label'))
        rng2 = random.Random('c03-regnames-%d' % idx)
        rng2.shuffle(pool)
        if len(names) <= len(pool):
            items = P.rename_labels(items, dict(zip(names, pool)))
            acc['ctr']['programs_with_register_named_labels'] += 1
    lines, eol, preseed = presentation(rng, items, idx)
    core.see(acc, 'presentations', ['canonical', 'syntax-variants', 'reused-label-table'][min(idx % 6, 3) if idx % 6 < 3 else 0])
    for compress in (False, True):
        acc['n'] += 1
        rcase = {'kind': 'rand', 'seed': seed, 'idx': idx, 'compress': compress}
        if trace:
            with monitors.PassTrace(asm) as tr:
                ex = progcheck.examine(asm, items, compress, seed=idx, lines=lines, eol=eol, preseed=preseed)
            moved = set(tr.passes_that_moved_labels())
            acc['ctr']['traced_programs'] += 1
            if len(moved) >= 3:
                acc['ctr']['traced_programs_labels_moved_in_3plus_passes'] += 1
            for p in moved:
                core.see(acc, 'passes_that_moved_labels', p)
        else:
            ex = progcheck.examine(asm, items, compress, seed=idx, lines=lines, eol=eol, preseed=preseed)
        if not ex.ok:
            acc['ctr']['random_refused'] += 1
            acc['ctr']['random_refused:' + ex.exc['msg'][:36]] += 1
            continue
        if ex.layout_problem:
            core.add_viol(acc, 'layout: ' + ex.layout_problem, rcase, {'lines': ex.lines})
            continue
        nj = judge_exam(acc, ex, rcase, only_transfers=True)
        if nj:
            acc['ntkeys'].add(core.ckey('rand', seed, idx, compress))
        acc['ctr']['random_assembled'] += 1
    if idx % 97 == 0:
        core.add_sample(acc, {'random_program': P.render(items)[:14], 'n_items': len(items)})


def cli_labels(asm, acc, seed, idx):
    """the -l file of a CLI run must list exactly the blob-stream offsets"""
    rng = random.Random('c03-rand-%d-%d' % (seed, idx))
    items = far_family(rng) if idx % 8 == 5 else randprog.gen(rng, CFG)
    compress = bool(idx & 1)
    ex = progcheck.examine(asm, items, compress, judge=False)
    if not ex.ok or ex.labels_true is None:
        return
    acc['n'] += 1
    with tempfile.TemporaryDirectory(prefix='bbv-c03-') as d:
        src = os.path.join(d, 'p.asm')
        open(src, 'w').write('\n'.join(ex.lines) + '\n')
        env = dict(os.environ, PYTHONPATH=core.repo_dir(), PYTHONDONTWRITEBYTECODE='1')
        cmd = [sys.executable, '-m', 'bronzebeard.asm', src, '-o', os.path.join(d, 'o.bin'), '-l', os.path.join(d, 'l.txt')] + (['-c'] if compress else [])
        r = subprocess.run(cmd, cwd=d, env=env, capture_output=True, text=True, timeout=120)
        rcase = {'kind': 'cli', 'seed': seed, 'idx': idx}
        if r.returncode != 0:
            core.add_viol(acc, 'CLI failed on a program the API assembles: %s' % r.stderr[-200:], rcase, {})
            return
        got = {}
        for ln in open(os.path.join(d, 'l.txt')):
            name, val = ln.split()
            got[name] = int(val, 16)
        acc['ctr']['cli_label_files'] += 1
        if got != ex.labels_true:
            bad = {k: (got.get(k), v) for k, v in ex.labels_true.items() if got.get(k) != v}
            core.add_viol(acc, '-l file disagrees with the offsets of the bytes: %r' % bad, rcase, {})


def run_shard(sh, deadline):
    asm = core.load_asm()
    acc = core.new_acc()
    if sh['kind'] == 'sweep':
        for case in sh['cases']:
            run_sweep_case(asm, acc, case)
            if time.time() > deadline:
                acc['truncated'] += 1
                break
    elif sh['kind'] == 'rand':
        for idx in range(sh['lo'], sh['hi']):
            run_random(asm, acc, sh['seed'], idx, trace=(idx % 10 == 0))
            if time.time() > deadline:
                acc['truncated'] += 1
                break
    else:
        for idx in range(sh['lo'], sh['hi']):
            cli_labels(asm, acc, sh['seed'], idx)
    return acc


def sweep_cases(tier, seed):
    rng = random.Random('c03-plan-%d' % seed)
    cases = []
    for x in XFERS:
        for d in ('fwd', 'bwd'):
            for D in DISTS:
                if d == 'fwd' and D == 0:
                    continue
                for compress in (False, True):
                    fillers = FILLERS if tier == 'thorough' else [FILLERS[(len(cases) + seed) % len(FILLERS)]]
                    for f in fillers:
                        cases.append({'x': list(x), 'dir': d, 'D': D, 'filler': f, 'compress': compress, 'pre': rng.choice([0, 0, 1, 3])})
    return cases


def plan(tier, seed):
    cases = sweep_cases(tier, seed)
    # big-gap cases are the slow ones: interleave
    cases.sort(key=lambda c: c['D'])
    nsh = 64 if tier == 'quick' else 256
    shards = [{'kind': 'sweep', 'cases': cases[i::nsh]} for i in range(nsh)]
    nrand = 1600 if tier == 'quick' else 100000
    step = 50 if tier == 'quick' else 500
    shards += [{'kind': 'rand', 'seed': seed, 'lo': lo, 'hi': min(nrand, lo + step)} for lo in range(0, nrand, step)]
    ncli = 8 if tier == 'quick' else 200
    shards += [{'kind': 'cli', 'seed': seed, 'lo': i, 'hi': i + 4} for i in range(0, ncli, 4)]
    return {'shards': shards, 'budget_s': 300 if tier == 'quick' else 3000, 'extra_cov': {'sweep_cases_planned': len(cases)}}


def expected_cells():
    cells = set()
    for x in XFERS:
        lo, hi = reach(x)
        for d, sign in (('fwd', 1), ('bwd', -1)):
            for D in DISTS:
                if d == 'fwd' and D == 0:
                    continue
                if d == 'fwd' and D == 2 and not (x[0] == 'c'):
                    continue     # a forward distance of 2 needs a 2-byte transfer
                if lo <= sign * D <= hi:
                    for c in 'uc':
                        cells.add('%s:%s/%s/%d/%s' % (x[0], x[1], d, D, c))
    return cells


def gates(acc, tier):
    g = []
    got = acc['seen'].get('cells_assembled', set())
    miss = expected_cells() - got
    # cells whose transfer cannot have the requested size (e.g. forward distance 2 with a 4-byte jal under no -c) never assemble
    # at that distance; they are reported, and gate only when a whole (kind, direction) family disappears
    fam_exp = {}
    for c in expected_cells():
        fam_exp.setdefault(tuple(c.split('/')[:2]), set()).add(c)
    for fam, cs in fam_exp.items():
        if not (cs & got):
            g.append('no assembled sweep case for %s %s' % fam)
    if len(miss) > 0.12 * len(expected_cells()):
        g.append('%d of %d reachable sweep cells never assembled at their distance' % (len(miss), len(expected_cells())))
    if acc['ctr']['transfers_judged'] == 0:
        g.append('no transfer was judged')
    if acc['ctr']['random_assembled'] < 0.5 * (acc['ctr']['random_assembled'] + acc['ctr']['random_refused']):
        g.append('most random programs were refused')
    return g[:8]


def post(acc, tier):
    got = acc['seen'].get('cells_assembled', set())
    exp = expected_cells()
    return {'sweep_cells_reachable': len(exp), 'sweep_cells_assembled_at_distance': len(exp & got),
            'sweep_cells_missing': sorted(exp - got)[:40]}


def replay(case):
    asm = core.load_asm()
    acc = core.new_acc()
    if case['kind'] == 'sweep':
        c = {k: v for k, v in case.items() if k != 'kind'}
        run_sweep_case(asm, acc, c)
    elif case['kind'] == 'rand':
        run_random(asm, acc, case['seed'], case['idx'])
    else:
        cli_labels(asm, acc, case['seed'], case['idx'])
    return acc
