"""C11 - constants are integer arithmetic and substitute transparently.  DESIGN.md section 4 / C11."""
import random
import string
import time

from .. import core, monitors
from ..gen import program as P, randprog, exprs

ID = 'C11'
LEVEL = 'exploration'
RULE = ('value: constants defined by random expression trees (depth <= 5) over + - * // % << >> & | ^ ~ unary minus and parentheses, '
        'leaves decimal / hex / binary literals and earlier constants, rendered with minimal or redundant parentheses and random spacing; '
        'the tree is evaluated directly by the harness (never by re-parsing text) and compared with the constants table filled by '
        'assemble(); a character-literal constant for every printable ASCII character.  substitution: random programs in which literal '
        'immediates, li values, shift amounts, data values, %hi/%lo/%position bases and registers are replaced by constants (defined through '
        'expression trees) must assemble to the bytes of the literal program, in both modes.  Non-trivial = an expression with at least '
        'two operators, a character literal, or a program pair in which at least one operand was substituted; distinct by text.')
ASSUMPTIONS = ['Python integer semantics are the documented definition of expression values (docs/assembly_language.rst, Constants)',
               'documented exclusions: numeric sequences are literal-only, a name in a branch/jump target position means a location, '
               'character literals are whole expressions']

PRINTABLE = [chr(c) for c in range(32, 127)]


def count_ops(t):
    if t[0] in ('lit', 'name'):
        return 0
    if t[0] in ('neg', 'inv'):
        return 1 + count_ops(t[1])
    return 1 + count_ops(t[2]) + count_ops(t[3])


# accepted constant names that look like something else: a directive / mnemonic / register in another letter case, hex digits only
HOSTILE = ['ERROR', 'Error', 'STRING', 'String', 'BYTES', 'Align', 'PACK', 'Db', 'LONGS', 'ADD', 'Li', 'NOP', 'Zero', 'RA', 'SP', 'X1', 'T0', 'a', 'x',
           'fee', 'dec', 'cafe', 'ADC', 'e', 'b0', 'xa', 'HI', 'LO', 'J', 'Ret', 'errors', 'string_', 'Offset', 'POSITION',
           '__STACK_TOP', 'MASK__LOW', 'ANSWER__', '_x', '_', 'a_b__c', 'import_', 'lambda_x', 'class_',
           # names Python's own identifier rules would fold into another spelling (micro sign / Greek mu, ohm sign / Omega, a ligature) or read as an attribute
           '\u00b5s_per_tick', '\u03bcs_per_tick', '\u2126_ohm', '\u03a9_ohm', '\ufb01rst', 'first', 'K0.scale', 'uart.BAUD']


def value_case(asm, acc, seed, idx):
    rng = random.Random('c11-v-%d-%d' % (seed, idx))
    env = {}
    lines = []
    exp = {}
    nconst = rng.randint(1, 6)
    nontriv = False
    for k in range(nconst):
        name = rng.choice(['K', 'FOO_', 'base', 'GPIO_BASE_ADDR_', 'x_']) + str(k)
        if rng.random() < 0.25:
            name = rng.choice(HOSTILE)
            acc['ctr']['constants_with_lookalike_names'] += 1
        if env and rng.random() < 0.25:
            name = rng.choice(list(env))          # a later definition of the same name (e.g. OFF = OFF + 4): the last one is the value
        for _ in range(20):
            t = exprs.gen(rng, rng.randint(1, 5), env.keys())
            try:
                v = exprs.ev(t, env)
                break
            except exprs.Invalid:
                continue
        else:
            t, v = ('lit', k, 'd'), k
        text = exprs.render(rng, t, 0, rng.choice([0.0, 0.2, 0.6]))
        env[name] = v
        exp[name] = v
        nontriv |= count_ops(t) >= 2
        lines.append('%s%s=%s%s' % (name, rng.choice([' ', '  ', '\t']), rng.choice([' ', '  ']), text))
    if exp and rng.random() < 0.35:
        # the running-total idiom (the same definition text several times) and a value that is set back to an earlier one
        n0 = rng.choice(list(exp))
        if rng.random() < 0.5:
            d, k = rng.choice([1, 4, -3]), rng.randint(2, 4)
            lines += ['%s = %s + %d' % (n0, n0, d)] * k
            exp[n0] = env[n0] = env[n0] + d * k
        else:
            a = rng.randrange(-40, 40)
            lines += ['%s = %d' % (n0, a), '%s = %d' % (n0, a + 1), '%s = %d' % (n0, a)]
            exp[n0] = env[n0] = a
        acc['ctr']['programs_with_repeated_definition_text'] += 1
        nontriv = True
    src = '\n'.join(lines) + '\n'
    acc['n'] += 1
    preseed = None
    if idx % 4 == 3:
        # the caller's constants table already holds some of the names (left over from another build): the program's own
        # definitions are what the program means
        preseed = {'constants': {n: rng.randrange(-99, 99) for n in list(exp)[:2]}}
    o = monitors.observe(asm, src, tap=False, preseed=preseed)
    case = {'kind': 'value', 'seed': seed, 'idx': idx}
    if nontriv:
        acc['ntkeys'].add(core.ckey(src))
    acc['ctr']['value_programs'] += 1
    acc['ctr']['constants_checked'] += len(exp)
    if not o.ok:
        core.add_viol(acc, 'constant definitions refused (%s: %s, line %s): %r' % (o.exc['type'], o.exc['msg'], o.exc.get('number'), lines), case, {})
        return
    for name, v in exp.items():
        got = o.constants.get(name)
        if got != v or type(got) is not int:
            ln = [l for l in lines if l.split('=')[0].strip() == name][-1]
            core.add_viol(acc, 'constant `%s` evaluates to %r; the value of the expression is %d' % (ln, got, v), case, {'lines': lines})
            break
    if idx % 301 == 0:
        core.add_sample(acc, {'constant_definitions': lines, 'values': exp})


def escaped_char_cases(asm, acc):
    """a character literal written with a multi-character escape, directly followed by a comment that quotes something"""
    for lit, v in [("'\\x41'", 65), ("'\\101'", 65), ("'\\u0041'", 65), ("'\\x7e'", 126), ("'\\n'", 10), ("'\\''", 39), ("'\\\\'", 92)]:
        for tail in ['', "#'A'", " # 'A'", "#','", " #'", "  # '(' and ')'"]:
            acc['n'] += 1
            src = 'QE = %s%s\ndb QE\n' % (lit, tail)
            o = monitors.observe(asm, src, tap=False)
            acc['ntkeys'].add(core.ckey('echar', lit, tail))
            acc['ctr']['escaped_char_literals'] += 1
            case = {'kind': 'echar', 'src': src}
            if not o.ok:
                core.add_viol(acc, 'character literal constant %r is refused: %s: %s' % (src.splitlines()[0], o.exc['type'], o.exc['msg']), case, {})
            elif o.constants.get('QE') != v or o.out != bytes([v]):
                core.add_viol(acc, 'character literal constant %r evaluates to %r (expected %d); program bytes %s' % (src.splitlines()[0], o.constants.get('QE'), v, o.out.hex()), case, {})


def char_case(asm, acc, ch):
    acc['n'] += 1
    case = {'kind': 'char', 'ch': ch}
    # (a comment may quote other characters: they are not part of the expression)
    cmt = ['', "  # not 'Z'", "  # '\\n' is 10, ',' is 44", " #'#'"][ord(ch) % 4]
    src = "QCH = '%s'%s\nR = QCH + 1\ndb QCH\ndh R\n" % (ch, cmt)
    o = monitors.observe(asm, src, tap=False)
    acc['ntkeys'].add(core.ckey('char', ch))
    acc['ctr']['char_literals'] += 1
    key = None
    if ch == '\\':
        return      # a lone backslash is not a character literal (escape introducer); C15 covers how it is refused
    if not o.ok:
        core.add_viol(acc, "character literal constant QCH = '%s' is refused: %s: %s" % (ch, o.exc['type'], o.exc['msg']), case, {}, key=key)
        return
    want = bytes([ord(ch)]) + (ord(ch) + 1).to_bytes(2, 'little')
    if o.constants.get('QCH') != ord(ch) or o.constants.get('R') != ord(ch) + 1 or o.out != want:
        core.add_viol(acc, "character literal constant QCH = '%s' evaluates to %r (ord is %d); program bytes %s, expected %s" % (
            ch, o.constants.get('QCH'), ord(ch), o.out.hex(), want.hex()), case, {}, key=key)


CFGS = [dict(w_xfer=6, w_labimm=10, w_data=14, w_li=14, w_inst=40, compress_bias=0.6),
        dict(w_xfer=10, w_data=10, w_li=10, w_inst=44, compress_bias=0.85, w_pseudo=14)]


def subst_items(rng, items):
    """constify, but with the constants defined through expression trees and chains of earlier constants"""
    out = randprog.constify(rng, items, rng.choice([0.3, 0.6, 0.9]))
    env = {}
    res = []
    # constants were inserted at arbitrary places; definitions that use earlier names must come after them: move all
    # definitions to the front in a stable order (constants are documented to be usable before their definition line
    # only as far as the implementation resolves them first; keep the documented order: define, then use)
    defs = [it for it in out if it['k'] == 'const']
    rest = [it for it in out if it['k'] != 'const']
    for d in defs:
        v = d['value']
        is_alias = d['name'].startswith('W')
        if is_alias or rng.random() < 0.3:
            res.append(d)
            if not is_alias:
                env[d['name']] = v
            continue
        for _ in range(10):
            t = exprs.gen(rng, rng.randint(1, 4), env.keys())
            try:
                tv = exprs.ev(t, env)
                break
            except exprs.Invalid:
                continue
        else:
            res.append(d)
            env[d['name']] = v
            continue
        text = exprs.render(rng, t, 5, 0.2)
        delta = v - tv
        text = '%s %s %d' % (text, '+' if delta >= 0 else '-', abs(delta))
        res.append(dict(d, text=text))
        env[d['name']] = v
    return res + rest, len(defs)


def subst_case(asm, acc, seed, idx):
    rng = random.Random('c11-s-%d-%d' % (seed, idx))
    items = randprog.gen(rng, CFGS[idx % len(CFGS)])
    # extra: constants inside %hi/%lo/%position bases and shift amounts are produced by constify (any {'i':..} operand)
    citems, ndefs = subst_items(rng, items)
    clash = None
    if idx % 3 == 1 and ndefs:
        # constants and labels live in separate namespaces: a label of the same name elsewhere in the program must not change what a
        # constant operand means.  (the label emits nothing, so the literal program keeps its layout; it gets the same label)
        names = [it['name'] for it in citems if it['k'] == 'const' and it['name'].startswith('K')]
        if names:
            clash = {'k': 'label', 'name': rng.choice(names)}
            pos = rng.randrange(len(items) + 1)
            k = 0
            # insert at the same structural position in both programs (after the `pos`-th non-constant item)
            def insert(seq):
                out, seen = [], 0
                done = False
                for it in seq:
                    if not done and it['k'] != 'const' and seen == pos:
                        out.append(clash)
                        done = True
                    if it['k'] != 'const':
                        seen += 1
                    out.append(it)
                if not done:
                    out.append(clash)
                return out
            items = insert(items)
            citems = insert(citems)
            acc['ctr']['pairs_with_label_named_like_a_constant'] += 1
    lit_lines = P.render(items)
    con_lines = P.render(citems)
    if idx % 2:
        # loads / stores / jalr in the `offset(base)` spelling: the base register, the offset, or both arrive through constants
        from ..gen import variants
        lit_lines = variants.offbase_lines(items, lit_lines, idx // 2 % 2)
        con_lines = variants.offbase_lines(citems, con_lines, idx // 2 % 2)
        acc['ctr']['pairs_with_offset_base_spelling'] += 1
    case = {'kind': 'subst', 'seed': seed, 'idx': idx}
    for compress in (False, True):
        acc['n'] += 1
        a = monitors.observe(asm, '\n'.join(lit_lines) + '\n', compress, tap=False)
        b = monitors.observe(asm, '\n'.join(con_lines) + '\n', compress, tap=False)
        if not a.ok:
            acc['ctr']['literal_program_refused'] += 1
            continue
        acc['ctr']['substitution_pairs'] += 1
        acc['ctr']['operands_substituted'] += ndefs
        if ndefs:
            acc['ntkeys'].add(core.ckey('\n'.join(con_lines), compress))
        if not b.ok:
            core.add_viol(acc, 'program with constants is refused (%s: %s, line %r) while the same program with the values written literally assembles (compress=%s)' % (
                b.exc['type'], b.exc['msg'], con_lines[b.exc['number'] - 1] if b.exc.get('number') and b.exc['number'] <= len(con_lines) else None, compress),
                dict(case, compress=compress), {'with_constants': con_lines[:60]})
        elif a.out != b.out:
            first = next((i for i in range(min(len(a.out), len(b.out))) if a.out[i] != b.out[i]), min(len(a.out), len(b.out)))
            core.add_viol(acc, 'program with constants assembles to different bytes than with the values written literally (compress=%s): lengths %d/%d, first difference at offset %d' % (
                compress, len(b.out), len(a.out), first), dict(case, compress=compress), {'with_constants': con_lines[:60], 'literal': lit_lines[:60]})
        elif a.labels != b.labels:
            core.add_viol(acc, 'label table differs between constant and literal program (compress=%s)' % compress, dict(case, compress=compress), {})
    if idx % 211 == 0:
        core.add_sample(acc, {'with_constants': con_lines[:12], 'literal': lit_lines[:8]})


def run_shard(sh, deadline):
    asm = core.load_asm()
    acc = core.new_acc()
    if sh['kind'] == 'char':
        escaped_char_cases(asm, acc)
        for ch in PRINTABLE:
            char_case(asm, acc, ch)
        return acc
    for idx in range(sh['lo'], sh['hi']):
        if sh['kind'] == 'value':
            value_case(asm, acc, sh['seed'], idx)
        else:
            subst_case(asm, acc, sh['seed'], idx)
        if time.time() > deadline:
            acc['truncated'] += 1
            break
    return acc


def plan(tier, seed):
    nv, ns = (6000, 2500) if tier == 'quick' else (300000, 100000)
    st = 250 if tier == 'quick' else 2500
    shards = [{'kind': 'char'}]
    shards += [{'kind': 'value', 'seed': seed, 'lo': lo, 'hi': min(nv, lo + st)} for lo in range(0, nv, st)]
    st = 60 if tier == 'quick' else 1000
    shards += [{'kind': 'subst', 'seed': seed, 'lo': lo, 'hi': min(ns, lo + st)} for lo in range(0, ns, st)]
    return {'shards': shards, 'budget_s': 300 if tier == 'quick' else 3000}


def gates(acc, tier):
    g = []
    if acc['ctr']['char_literals'] != 95:
        g.append('character literals checked: %d of 95' % acc['ctr']['char_literals'])
    if acc['ctr']['substitution_pairs'] == 0 or acc['ctr']['operands_substituted'] == 0:
        g.append('no substitution pair ran')
    if acc['ctr']['literal_program_refused'] > 0.3 * max(1, acc['ctr']['substitution_pairs']):
        g.append('too many literal programs refused')
    return g


def replay(case):
    asm = core.load_asm()
    acc = core.new_acc()
    if case['kind'] == 'value':
        value_case(asm, acc, case['seed'], case['idx'])
    elif case['kind'] == 'char':
        char_case(asm, acc, case['ch'])
    elif case['kind'] == 'echar':
        escaped_char_cases(asm, acc)
    else:
        subst_case(asm, acc, case['seed'], case['idx'])
    return acc
