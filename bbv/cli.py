"""P6: the bronzebeard command line run in a subprocess from a chosen working directory."""
import os
import subprocess
import sys

from . import core


def run_cli(args, cwd, extra_env=None, timeout=180, launcher=None):
    env = dict(os.environ)
    env['PYTHONPATH'] = core.repo_dir()
    env['PYTHONDONTWRITEBYTECODE'] = '1'
    env.pop('PYTHONHASHSEED', None)
    env.update(extra_env or {})
    py = [sys.executable] + (['-O'] if core._NOASSERT else [])      # shards in no-assert mode run the command line under python -O too
    if launcher:
        cmd = py + [launcher] + list(args)
    else:
        cmd = py + ['-m', 'bronzebeard.asm'] + list(args)
    return subprocess.run(cmd, cwd=cwd, env=env, capture_output=True, text=True, timeout=timeout)
