#!/bin/bash
# run every check of one tier (default quick) and print one summary line per check:  tools/runall.sh [tier] [seed]
tier=${1:-quick}; seed=${2:-0}
cd "$(dirname "$0")/.."
for i in $(seq -w 1 20); do
  s=$(date +%s.%N)
  out=$(VERIF_SEED=$seed /venv/bin/python -m bbv C$i --tier $tier 2>&1); rc=$?
  e=$(date +%s.%N)
  printf "C%s rc=%d %.1fs  %s\n" $i $rc $(echo "$e - $s" | bc) "$(echo "$out" | grep -v KNOWN-FINDING | tail -1 | cut -c1-150)"
done
