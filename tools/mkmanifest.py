#!/usr/bin/env python3
"""Regenerate /verif/MANIFEST.json from the table below (kept in one place so it is always valid)."""
import json
import os

HERE = os.path.dirname(os.path.dirname(os.path.abspath(__file__)))
PY = '/venv/bin/python'

TB = ('trusted base: the reference model in bbv/refmodel (RISC-V decoder / ISS / operand sets written from the unprivileged '
      'spec, cross-validated against llvm-mc-14 by bbv/selfcheck.py (python -m bbv.selfcheck, the setup_cmd)), CPython, and the monitors in bbv/monitors.py '
      'installed by rebinding module attributes of the freshly imported working tree')

CHECKS = {
    'C01': ('exploration', 'runtime contract (decoder postcondition) on every encoder execution; thorough tier enumerates the full cross product',
            'Every encoder execution (direct, and those made by assemble() on generated text) is checked by an independent RV32 decoder: '
            'decode(word) must equal the mnemonic and operands named. Thorough = all 66 mnemonics x all registers x complete immediate '
            'ranges (2.5e8 monitored executions), which is the property\'s own quantifier; injectivity follows because decode is a function.', '4/C01'),
    'C02': ('exploration', 'runtime contract on every c.* encoder execution + complete 16-bit reverse enumeration',
            'Forward: all operand tuples in and around the legal sets decoded by an independent RVC decoder. Reverse: all 65,536 halfwords '
            'classified, every legal one assembled from its canonical text. Both complete in both tiers.', '4/C02'),
    'C03': ('exploration', 'reference-model monitor over observed layouts (blob stream) of generated programs',
            'Every pc-relative transfer of every assembled build is decoded/executed by the reference ISS and must land on the offset of the '
            'first byte after its label, taken from where the bytes actually ended up; the reported label table and the -l file must equal '
            'those offsets. Distance-class sweep with label-moving fillers plus random programs, both modes.', '4/C03'),
    'C04': ('exploration', 'per-line differential monitor of compressed vs uncompressed build against the reference ISS',
            'Both builds of each generated program are observed line by line; every 16-bit chunk must be a legal RVC encoding and every line of the '
            'compressed build must mean what the source line names whenever the uncompressed build does (execution on the reference ISS decides '
            'when decoded forms differ); data bytes equal.', '4/C04'),
    'C05': ('exploration', 'execution of emitted pseudo-instruction code on a reference ISS vs documented effect',
            'The bytes emitted for each of the 27 pseudo-instructions are executed from corner and random register files and compared with the '
            'effect function written from docs/instruction_reference.rst; li over boundary + sampled 32-bit values.', '4/C05'),
    'C06': ('exploration', 'three-valued operand-set oracle on encoder calls and one-line programs',
            'Probe sets reach far beyond both ends of every legal interval at every residue, all register spellings; must-reject tuples must raise, '
            'must-accept tuples must encode (and decode back).', '4/C06'),
    'C07': ('exploration', 'carry-class enumeration of relocate_hi/lo + executed %hi/%lo pairs on the reference ISS',
            'All low-13-bit patterns x upper carry classes at the function boundary; lui/auipc + addi/lw/sw/jalr pairs of generated programs '
            'executed on the ISS must address exactly the value; a refusal of a consumer whose literal / constant operand is a 32-bit value is a violation too.', '4/C07'),
    'C08': ('exploration', 'reference evaluation of label expressions over final offsets vs decoded immediates/data',
            'Immediates and data words decoded from the output must equal the source expression evaluated over the final label offsets taken from the '
            'blob stream; programs built so that labels move after early decisions.', '4/C08'),
    'C09': ('exploration', 'independent layout walk over the observed blob stream',
            'Chunks must concatenate to the output in source order, every item has a documented size, align pads minimally with zeros at every residue '
            'for N in 1..33 and larger, both modes.', '4/C09'),
    'C10': ('exploration', 'reference encoders (two\'s complement, struct semantics, UTF-8 + escapes, file contents) vs emitted bytes',
            'Every width x values around every boundary; strings incl. non-ASCII and escapes; include_bytes located next to the source / in -i dirs '
            'with decoy files in the working directory, via API and CLI.', '4/C10'),
    'C11': ('exploration', 'direct evaluation of generated expression trees + metamorphic substitution',
            'Constants must equal the generator-side value of their expression tree (never re-parsed text); programs using constants must assemble '
            'to the same bytes as programs with the values written literally.', '4/C11'),
    'C12': ('exploration', 'differential outcome monitor compress off vs on',
            'Every program accepted without compression must be accepted with it; generators weighted to constants/aliases as shift amounts, '
            'label-dependent immediates near RVC operand-set edges, far call/tail, operands on RVC edges written as derived quantities, labels whose '
            'spelling Python would read as something about a constant.', '4/C12'),
    'C13': ('exploration', 'metamorphic monitor: canonical rendering vs seeded re-spellings of the same structure',
            'All documented spelling freedoms applied independently per line and per operand; bytes and label table must be identical.', '4/C13'),
    'C14': ('exploration', 'metamorphic monitor: include tree vs harness-side flattening, under varied working directories',
            'Generated include trees assembled via API (absolute and relative root) and CLI from several cwds incl. one with decoy files; result must '
            'equal the flattened text and not depend on cwd.', '4/C14'),
    'C15': ('fault_enumeration', 'fault injection: one planted faulty line per program, exception class and location checked',
            'Each fault class x carrier x every line position x include depth x compress in a fixed base program, plus the same fault lines '
            'planted into thousands of random valid programs; the failure must be AssemblerError naming file and line; CLI must exit 1 without traceback.', '4/C15'),
    'C16': ('exploration', 'history checker: call sequences vs solo results from fresh interpreters; module-table digests; hash-seed sweep',
            'Random call histories over an interfering program pool compared with the solo result of each (program, options) in a fresh process; '
            'digest of module tables before/after every call; PYTHONHASHSEED sweep.', '4/C16'),
    'C17': ('fault_enumeration', 'CLI subprocess monitor with natural and injected failures at every pass',
            'Success: -o/-l/.hex decoded by reference readers. Failure: every pass rebinding to raise + natural faults, with older output files present; '
            'files must be untouched and exit status non-zero.', '4/C17'),
    'C18': ('exploration', 'simulated DfuSe device (state machine + NOR flash + virtual clock) behind a fake usb module',
            'The real dfu.cli_main runs against the device model over firmware lengths, GD32 variants and busy schedules; final flash, erase/program '
            'order, busy discipline, poll delays and address bounds are checked from the recorded request log.  Thorough = every firmware length '
            '0..flash size of all four variants (245,000 simulated flashes); a run that keeps polling a device with nothing pending (bounded-progress '
            'budget) or talks to a device that has left DFU mode is a violation.', '4/C18'),
    'C19': ('fault_enumeration', 'device error-status injection at every single and double step',
            'Oversize images must produce no DNLOAD request; every injected error status must lead to a non-zero exit that names the failure, '
            'never "done!" and never an endless wait (bounded-progress budget); the status arrives with dfuERROR, or (nonconforming devices) with '
            'dfuDNLOAD-IDLE, dfuIDLE, or dfuDNBUSY followed by an all-clear; a third of the runs on a terminal-like standard output.', '4/C19'),
    'C20': ('exploration', 'complete eligibility enumeration over the 28,461 legal halfwords + monotonicity monitor',
            'The expansion of every legal RVC halfword, written as a 32-bit source line, must be emitted in 16 bits under -c; compressed builds '
            'are never longer and no label moves up.', '4/C20'),
}


def main():
    have = sorted(f[:-3].upper() for f in os.listdir(os.path.join(HERE, 'bbv', 'checks')) if f.startswith('c') and f.endswith('.py') and f[1:3].isdigit())
    checks = []
    na = []
    for pid in sorted(CHECKS):
        level, tech, text, ref = CHECKS[pid]
        if pid not in have:
            na.append({'property_id': pid, 'reason': 'check not built yet (planned: %s)' % tech})
            continue
        checks.append({
            'property_id': pid,
            'quick_cmd': '%s -m bbv %s --tier quick' % (PY, pid),
            'thorough_cmd': '%s -m bbv %s --tier thorough' % (PY, pid),
            'evidence_file': '/verif/evidence/%s.json' % pid,
            'replay_cmd_template': '%s -m bbv %s --replay {path}' % (PY, pid),
            'engine': 'bbv',
            'level_claimed': {'category': level, 'text': text, 'design_ref': 'DESIGN.md section ' + ref},
            'level_note': TB,
            'technique': 'runtime monitoring: ' + tech,
        })
    man = {
        'version': 1,
        'setup_cmd': '%s -m bbv.selfcheck' % PY,
        'hooks': {
            'guard': 'BRONZEBEARD_VERIF',
            'enable': 'no source hooks: monitors are installed from the harness by rebinding module attributes of the freshly imported '
                      '/repo working tree (asm.resolve_blobs, asm.INSTRUCTIONS, pass functions, fake usb module, dfu.time); the harness '
                      'sets BRONZEBEARD_VERIF=1 in its own processes only',
            'baseline_off_cmd': 'cd /repo && /venv/bin/python -m pytest -ra -q -p no:cacheprovider --timeout=900 --continue-on-collection-errors',
            'source_commits': [],
            'add_only': True,
        },
        'engines': [{'name': 'bbv', 'path': '/verif/bbv', 'serves_properties': [c['property_id'] for c in checks],
                     'kind_free_text': 'pure-Python runtime monitors + reference model; run as `python -m bbv Cxx --tier quick|thorough`'}],
        'checks': checks,
        'not_applicable': na,
        'notes': 'Exit codes: 0 held on what was observed, 1 VIOLATION (with replay file), 2 INCONCLUSIVE (coverage gate not met / watchdog). '
                 'VERIF_SEED seeds all random choices; VERIF_REPO (default /repo) selects the tree under test. Repairs of genuine defects are the '
                 '"fix:" commits in /repo listed in /verif/KNOWN_FINDINGS.txt.',
    }
    with open(os.path.join(HERE, 'MANIFEST.json'), 'w') as f:
        json.dump(man, f, indent=1)
    print('MANIFEST.json: %d checks, %d not yet built' % (len(checks), len(na)))


if __name__ == '__main__':
    main()
