"""Launcher for injected failures (C17): rebinds one function of the freshly imported assembler so that it raises on
entry, then runs the real cli_main().  BBV_FAIL_FUNC=<name>  BBV_FAIL_KIND=asm|runtime"""
import os
import sys

sys.dont_write_bytecode = True


def main():
    from bronzebeard import asm
    name = os.environ.get('BBV_FAIL_FUNC')
    kind = os.environ.get('BBV_FAIL_KIND', 'asm')
    if name and not hasattr(asm, name):
        print('BBV-NOFUNC %s' % name, file=sys.stderr)
        name = None
    if name:
        orig = getattr(asm, name)

        def failing(*a, **k):
            if kind == 'asm':
                raise asm.AssemblerError('injected failure in %s' % name, asm.Line('<injected>', 1, 'injected'))
            raise RuntimeError('injected failure in %s' % name)
        failing.__wrapped__ = orig
        setattr(asm, name, failing)
        print('BBV-INJECTED %s' % name, file=sys.stderr)
    sys.argv = ['bronzebeard'] + sys.argv[1:]
    asm.cli_main()


if __name__ == '__main__':
    main()
