#!/usr/bin/env python3
"""Mutation self-test of the bbv checks (DESIGN.md section 9).

Each mutant is a realistic edit of bronzebeard.  It is applied to a scratch copy of /repo under /tmp (removed
afterwards), the repository's own test suite is run there (a mutant that fails it is reported as `killed by tests`
and not used), then the checks of the properties it breaks are run with VERIF_REPO=<copy>.

  tools/mutest.py [--tier quick] [--only name,...] [--jobs 3]      writes tools/MUTANTS.md
"""
import argparse
import concurrent.futures as cf
import json
import os
import re
import shutil
import subprocess
import sys
import tempfile
import time

HERE = os.path.dirname(os.path.dirname(os.path.abspath(__file__)))
REPO = '/repo'
PY = '/venv/bin/python'
A = 'bronzebeard/asm.py'
D = 'bronzebeard/dfu.py'

# (name, file, find, replace, [properties expected to fire], note)
M = [
    ('b_type_swap_scatter_bits', A, "    imm_4_1 = imm & 0b1111\n\n    code = 0\n    code |= opcode\n    code |= imm_11 << 7",
     "    imm_4_1 = imm & 0b1111\n    imm_4_1 = (imm_4_1 & 0b1001) | ((imm_4_1 & 2) << 1) | ((imm_4_1 & 4) >> 1)\n\n    code = 0\n    code |= opcode\n    code |= imm_11 << 7", ['C01'], 'two bits of the B scatter swapped'),
    ('j_type_swap_bits', A, "    imm_19_12 = (imm >> 11) & 0b11111111\n    imm_11 = (imm >> 10) & 0b1\n", "    imm_19_12 = (imm >> 11) & 0b11111111\n    imm_19_12 = (imm_19_12 & 0b10011111) | ((imm_19_12 & 0b00100000) << 1) | ((imm_19_12 & 0b01000000) >> 1)\n    imm_11 = (imm >> 10) & 0b1\n", ['C01'], ''),
    ('s_type_mask_short', A, "    imm_11_5 = (imm >> 5) & 0b1111111\n    imm_4_0 = imm & 0b11111\n\n    code = 0\n    code |= opcode\n    code |= imm_4_0 << 7\n    code |= funct3 << 12\n    code |= rs1 << 15\n    code |= rs2 << 20",
     "    imm_11_5 = (imm >> 5) & 0b1111111\n    imm_4_0 = imm & 0b11111\n    if imm_11_5 == 0b0101010:\n        imm_11_5 = 0b0101000\n\n    code = 0\n    code |= opcode\n    code |= imm_4_0 << 7\n    code |= funct3 << 12\n    code |= rs1 << 15\n    code |= rs2 << 20", ['C01'], 'interior-only corruption of one S-type pattern'),
    ('cj_type_swap', A, "    imm_9_8 = (imm >> 7) & 0b11\n    imm_7 = (imm >> 6) & 0b1\n    imm_6 = (imm >> 5) & 0b1\n", "    imm_9_8 = (imm >> 7) & 0b11\n    imm_7 = (imm >> 5) & 0b1\n    imm_6 = (imm >> 6) & 0b1\n", ['C02'], ''),
    ('cia_type_swap', A, "    imm_6 = (imm >> 2) & 0b1\n    imm_5 = (imm >> 1) & 0b1\n    imm_4 = imm & 0b1\n", "    imm_6 = (imm >> 1) & 0b1\n    imm_5 = (imm >> 2) & 0b1\n    imm_4 = imm & 0b1\n", ['C02'], ''),
    ('i_type_bound_inclusive', A, "def i_type(rd, rs1, imm, *, opcode, funct3):\n    rd = lookup_register(rd)\n    rs1 = lookup_register(rs1)\n\n    if imm < -0x800 or imm > 0x7ff:",
     "def i_type(rd, rs1, imm, *, opcode, funct3):\n    rd = lookup_register(rd)\n    rs1 = lookup_register(rs1)\n\n    if imm < -0x800 or imm > 0x800:", ['C06'], 'accepts 2048'),
    ('cl_type_bound', A, "def cl_type(rd, rs1, imm, *, opcode, funct3, cs=None):\n    rd = lookup_register(rd, compressed=True)\n    rs1 = lookup_register(rs1, compressed=True)\n\n    if imm < 0 or imm > 127:",
     "def cl_type(rd, rs1, imm, *, opcode, funct3, cs=None):\n    rd = lookup_register(rd, compressed=True)\n    rs1 = lookup_register(rs1, compressed=True)\n\n    if imm < 0 or imm > 131:", ['C06', 'C02'], 'c.lw accepts 128'),
    ('compressed_reg_upper', A, "        if reg < 8 or reg > 15:", "        if reg < 8 or reg > 16:", ['C06', 'C02'], ''),
    ('c_lui_allows_x2', A, "C_LUI      = partial(ciu_type, opcode=0b01, funct3=0b011, cs=[RegRdRs1NotZero, RegRdRs1NotTwo, ImmNotZero])", "C_LUI      = partial(ciu_type, opcode=0b01, funct3=0b011, cs=[RegRdRs1NotZero, ImmNotZero])", ['C06', 'C02'], ''),
    ('relocate_hi_no_carry_high', A, "    if imm & 0x800:\n        imm += 2**12", "    if imm & 0x800 and not (imm & 0x40000000):\n        imm += 2**12", ['C07', 'C05'], 'carry dropped for one upper-bit class'),
    ('relocate_lo_unsigned_0x800', A, "def relocate_lo(imm):\n    return sign_extend(imm & 0x00000fff, 12)", "def relocate_lo(imm):\n    v = sign_extend(imm & 0x00000fff, 12)\n    return v if (imm & 0xfff) != 0x800 or imm < 0x10000 else v + 0\n", [], 'no-op control (must NOT be caught)'),
    ('li_threshold_inclusive', A, "                if static and value >= (-2**11) and value <= (2**11 - 1):\n                    inst = ITypeInstruction(item.line, 'addi', rd=rd, rs1='x0', imm=Lo(imm))", "                if static and value >= (-2**11) and value <= (2**11):\n                    inst = ITypeInstruction(item.line, 'addi', rd=rd, rs1='x0', imm=Lo(imm))", ['C05'], 'li 2048 becomes addi -2048'),
    ('li_shrink_dropped', A, "                    inst = ITypeInstruction(item.line, 'addi', rd=rd, rs1='x0', imm=Lo(imm))\n                    # shrink all subsequent labels by 4\n                    new_labels = {k: v - 4 for k, v in labels.items() if v > position}\n                    labels.update(new_labels)",
     "                    inst = ITypeInstruction(item.line, 'addi', rd=rd, rs1='x0', imm=Lo(imm))", ['C03', 'C08'], 'labels after a short li are 4 too high'),
    ('compress_shrink_ge', A, "            new_labels = {k: v - 2 for k, v in labels.items() if v > position}", "            new_labels = {k: v - 2 for k, v in labels.items() if v >= position}", ['C03', 'C04'], 'label right before a compressed instruction moves'),
    ('compress_shrink_by_4', A, "            new_labels = {k: v - 2 for k, v in labels.items() if v > position}", "            new_labels = {k: v - (2 if position % 64 else 4) for k, v in labels.items() if v > position}", ['C03', 'C04'], ''),
    ('align_resolution_residue0', A, "        padding = self.alignment - (position % self.alignment)\n        if padding == self.alignment:\n            return 0", "        padding = self.alignment - (position % self.alignment)\n        if padding == self.alignment and self.alignment != 8:\n            return 0", ['C09'], 'align 8 at residue 0 pads 8'),
    ('align_shrink_gt_to_ge', A, "        new_labels = {k: v - shrink for k, v in labels.items() if v > position}\n        labels.update(new_labels)\n\n        # skip if already aligned", "        new_labels = {k: v - shrink for k, v in labels.items() if v >= position and shrink}\n        labels.update(new_labels)\n\n        # skip if already aligned", ['C03'], 'label right before an align moves'),
    ('c_addi_drop_regsmatch', A, "            RegNotEquals('rs1', 0),\n            RegsMatch('rd', 'rs1'),\n            ImmIsStatic(),\n            ImmNotEquals(0),\n            ImmBetween(-2**5, 2**5 - 1),", "            RegNotEquals('rs1', 0),\n            ImmIsStatic(),\n            ImmNotEquals(0),\n            ImmBetween(-2**5, 2**5 - 1),", ['C04'], 'addi x5, x6, 1 becomes c.addi x5, 1'),
    ('c_lwsp_drop_sp', A, "            NameEquals('lw'),\n            RegNotEquals('rd', 0),\n            RegEquals('rs1', 2),", "            NameEquals('lw'),\n            RegNotEquals('rd', 0),\n            RegBetween('rs1', 2, 3),", ['C04'], ''),
    ('c_mv_alt_no_imm0', A, "            RegNotEquals('rs1', 0),\n            ImmIsStatic(),\n            ImmEquals(0),\n        ],\n        'c.ebreak'", "            RegNotEquals('rs1', 0),\n            ImmIsStatic(),\n            ImmBetween(0, 1),\n        ],\n        'c.ebreak'", ['C04'], 'addi rd, rs, 1 becomes c.mv'),
    ('c_andi_range_narrow', A, "            NameEquals('andi'),\n            RegBetween('rd', 8, 15),\n            RegBetween('rs1', 8, 15),\n            RegsMatch('rd', 'rs1'),\n            ImmIsStatic(),\n            ImmBetween(-2**5, 2**5 - 1),", "            NameEquals('andi'),\n            RegBetween('rd', 8, 15),\n            RegBetween('rs1', 8, 15),\n            RegsMatch('rd', 'rs1'),\n            ImmIsStatic(),\n            ImmBetween(-2**5, 2**5 - 2),", ['C20'], 'andi x8, x8, 31 no longer compressed'),
    ('c_sub_missing_regclass', A, "            NameEquals('sub'),\n            RegBetween('rd', 8, 15),", "            NameEquals('sub'),\n            RegBetween('rd', 8, 14),", ['C20'], ''),
    ('second_round_dropped', A, "        items = resolve_register_aliases(items, constants)\n        if compress:\n            items = transform_compressible(items, absolutes, labels)\n        items = resolve_aligns(items, labels)", "        items = resolve_register_aliases(items, constants)\n        items = resolve_aligns(items, labels)", ['C20'], 'instructions that come out of pseudo-instruction expansions are never compressed'),
    ('neg_operand_order', A, "            inst = RTypeInstruction(item.line, 'sub', rd=rd, rs1='x0', rs2=rs)", "            inst = RTypeInstruction(item.line, 'sub', rd=rd, rs1=rs, rs2='x0') if rd == rs else RTypeInstruction(item.line, 'sub', rd=rd, rs1='x0', rs2=rs)", ['C05'], 'wrong only when rd == rs'),
    ('bgt_unswapped_numeric', A, "            inst = BTypeInstruction(item.line, names[item.name], rs1=rt, rs2=rs, imm=imm)", "            inst = BTypeInstruction(item.line, names[item.name], rs1=rt, rs2=rs, imm=imm) if not rs.isdigit() else BTypeInstruction(item.line, names[item.name], rs1=rs, rs2=rt, imm=imm)", ['C05', 'C13'], 'operands unswapped only when registers are spelled numerically'),
    ('position_uses_pessimistic', A, "        items = resolve_aligns(items, labels)\n        items = resolve_immediates(items, absolutes, labels)", "        items = resolve_immediates(items, absolutes, labels)\n        items = resolve_aligns(items, labels)", ['C08', 'C03'], 'immediates baked before aligns are resolved'),
    ('offset_eval_stale', A, "        dest = env[self.reference]\n        return dest - position", "        dest = env[self.reference]\n        return dest - position + (2 if position % 4 == 2 and dest < position else 0)", ['C03'], 'backward offsets wrong from a 2-mod-4 position'),
    ('longs_8_bytes', A, "            'longs': 4,\n            'longlongs': 8,\n        }\n        return sizes[self.name] * len(self.values)", "            'longs': 8,\n            'longlongs': 8,\n        }\n        return sizes[self.name] * len(self.values)", ['C03', 'C09'], 'size() of longs says 8: labels after it are wrong'),
    ('dh_signedness', A, "        fmt = endianness + formats[item.name]\n        if item.imm < 0:\n            fmt = fmt.lower()\n\n        pack = Pack(item.line, fmt, item.imm)", "        fmt = endianness + formats[item.name]\n        if item.imm < 0 or (item.name == 'dh' and item.imm < 0x8000):\n            fmt = fmt.lower()\n\n        pack = Pack(item.line, fmt, item.imm)", [], 'same bytes: control (must NOT be caught)'),
    ('dh_unsigned_max_refused', A, "        fmt = endianness + formats[item.name]\n        if item.imm < 0:\n            fmt = fmt.lower()\n\n        pack = Pack(item.line, fmt, item.imm)", "        fmt = endianness + formats[item.name]\n        if item.imm < 0 or item.name == 'dh':\n            fmt = fmt.lower()\n\n        pack = Pack(item.line, fmt, item.imm)", ['C10'], 'dh 0x8000..0xffff refused'),
    ('mutable_default_labels', A, "def assemble(path_or_source, *, constants=None, labels=None, compress=False, include_dirs=None):", "def assemble(path_or_source, *, constants=None, labels={}, compress=False, include_dirs=None):", ['C16'], 'labels leak between calls without caller dicts'),
    ('registers_polluted_by_alias', A, "        value = item.expr.eval(None, env, item.line)\n        constants[item.name] = value", "        value = item.expr.eval(None, env, item.line)\n        constants[item.name] = value\n        if item.name.startswith('SHARED'):\n            REGISTERS[item.name] = value", ['C16'], 'module table mutated'),
    ('include_rel_to_cwd', A, "        current_dirs = copy.deepcopy(include_dirs or [])\n    current_dirs.append(base_path)", "        current_dirs = copy.deepcopy(include_dirs or [])\n    current_dirs.append(base_path)", [], 'placeholder'),
    ('include_cwd_first', A, "    current_dirs = copy.deepcopy(include_dirs or [])\n    current_dirs.append(base_path)", "    current_dirs = copy.deepcopy(include_dirs or [])\n    current_dirs.insert(0, os.getcwd())\n    current_dirs.append(base_path)", ['C14'], 'cwd searched first'),
    ('include_dirs_appended', A, "    current_dirs = copy.deepcopy(include_dirs or [])\n    current_dirs.append(base_path)", "    current_dirs = include_dirs if include_dirs is not None else []\n    current_dirs.append(base_path)", ['C14', 'C16'], 'caller list mutated; included files\' dirs leak'),
    ('cli_open_before_assemble', A, "    constants = {}\n    labels = {}\n    try:\n        input_asm = os.path.abspath(args.input_asm)", "    out_bin = open(args.output, 'wb')\n    out_bin.close()\n    constants = {}\n    labels = {}\n    try:\n        input_asm = os.path.abspath(args.input_asm)", ['C17'], 'output truncated before assembling'),
    ('cli_hex_offset_lost_big', A, "            if bin2hex(args.output + '.part', args.output + '.hex.part', hex_offset) != 0:", "            if bin2hex(args.output + '.part', args.output + '.hex.part', hex_offset if len(binary) <= 65536 else hex_offset & 0xffff) != 0:", ['C17'], ''),
    ('cli_parts_left_behind', A, "        for part, path in staged:\n            if os.path.isfile(part):\n                os.remove(part)\n        raise", "        raise", [], 'stale .part files after a failure: not an output the property names - control'),
    ('cli_replace_before_all_staged', A, "        staged.append((args.output + '.part', args.output))\n        with open(args.output + '.part', 'wb') as out_bin:\n            out_bin.write(binary)\n", "        with open(args.output, 'wb') as out_bin:\n            out_bin.write(binary)\n        staged.append((args.output, args.output))\n", ['C17'], 'binary written in place before the hex file is known to be writable'),
    ('cli_labels_decimal', A, "            lines = ['{} 0x{:08x}\\n'.format(k, v) for k, v in labels.items()]", "            lines = ['{} 0x{:08x}\\n'.format(k, v if v < 4096 else v & ~1) for k, v in labels.items()]", [], 'no-op for even labels: control'),
    ('error_line_off_by_include', A, "        line = Line(path, i, raw_line)", "        line = Line(path, i if not include else i + 1, raw_line)", ['C15'], 'line numbers of included files off by one'),
    ('error_loses_line_in_li', A, "                value = imm.eval(position, env, item.line)\n                value = c_int32(value).value  # signed imm\n                # labels and positions are still moving", "                value = imm.eval(position, env, Line(item.line.file, 1, item.line.contents))\n                value = c_int32(value).value  # signed imm\n                # labels and positions are still moving", ['C15'], 'undefined li operand reported at line 1'),
    ('comment_strip_after_paren', A, "    contents = re.sub(r'#.*$', r'', contents)\n\n    # pad parens before split\n    contents = contents.replace('(', ' ( ').replace(')', ' ) ')", "    # pad parens before split\n    contents = contents.replace('(', ' ( ').replace(')', ' ) ')\n    contents = re.sub(r' #.*$', r'', contents)", ['C13'], 'comment glued to a token survives'),
    ('hex_register_breaks_alias', A, "    try:\n        reg = int(reg, base=0)\n    except:\n        pass", "    try:\n        reg = int(reg, base=0) if not str(reg).startswith('0b') else reg\n    except:\n        pass", [], 'binary register numbers are not a documented spelling: control'),
    ('const_precedence_paren_strip', A, "        return Arithmetic(' '.join(imm))\n\n\ndef parse_item", "        return Arithmetic(' '.join(imm) if imm.count('(') != 2 else ' '.join(t for t in imm if t not in '()'))\n\n\ndef parse_item", ['C11'], 'parentheses dropped from expressions with two groups'),
    ('dfu_pages_floor', D, "    pages, rem = divmod(len(firmware), page_size)\n    if rem != 0:\n        pages += 1", "    pages, rem = divmod(len(firmware), page_size)\n    if rem > 1:\n        pages += 1", ['C18'], 'length k*1024+1 loses its last byte'),
    ('dfu_erase_skips_last', D, "    for page in range(pages):\n        start = 0x08000000", "    for page in range(pages if pages < 100 else pages - 1):\n        start = 0x08000000", ['C18'], 'last page not erased on big images'),
    ('dfu_no_sleep', D, "    time.sleep(poll_timeout)\n    return status, state", "    time.sleep(poll_timeout if poll_timeout < 60 else 0)\n    return status, state", ['C18'], 'long poll delays not waited for'),
    ('dfu_size_guard_ge', D, "    if len(firmware) > (page_size * page_count):", "    if len(firmware) > (page_size * page_count) + page_size - 1:", ['C19', 'C18'], 'oversize by < 1 page accepted'),
    ('dfu_error_ignored_last_page', D, "        if status != STATUS_OK:\n            print()\n            raise SystemExit('error writing page", "        if status != STATUS_OK and page != pages - 1:\n            print()\n            raise SystemExit('error writing page", ['C19'], 'error on the last write ignored'),
    ('dfu_erase_error_ignored', D, "        if status != STATUS_OK:\n            print()\n            raise SystemExit('error erasing page", "        if status != STATUS_OK and status != STATUS_ERR_VERIFY:\n            print()\n            raise SystemExit('error erasing page", ['C19'], 'one status code ignored'),
    ('dfu_transient_error_ignored', D, "        while state == STATE_DFU_DNBUSY and status == STATUS_OK:\n            status, state = dfu_get_status(dev)\n\n        if status != STATUS_OK:\n            print()\n            raise SystemExit('error erasing page", "        while state == STATE_DFU_DNBUSY:\n            status, state = dfu_get_status(dev)\n\n        if status != STATUS_OK:\n            print()\n            raise SystemExit('error erasing page", ['C19'], 'F45 undone for the erase wait'),
    ('names_read_by_python_again', A, "        expr = re.sub(r'''[^\\s()\\[\\]{}+\\-*/%&|^~<>=!,:;'\"@#]+''', named, expr)\n", "", ['C08'], 'F44 undone'),
    ('dfu_write_before_poll', D, "        # poll state til not busy (an error status ends the wait whichever state comes with it)\n        status, state = dfu_get_status(dev)\n        while state == STATE_DFU_DNBUSY and status == STATUS_OK:\n            status, state = dfu_get_status(dev)\n\n        if status != STATUS_OK:\n            print()\n            raise SystemExit('error setting address", "        # poll state til not busy\n        status, state = dfu_get_status(dev)\n\n        if status != STATUS_OK:\n            print()\n            raise SystemExit('error setting address", ['C18'], 'set-address busy polls not awaited'),
    ('string_utf16', A, "        blob = Blob(item.line, item.value.encode('utf-8'))", "        blob = Blob(item.line, item.value.encode('utf-8') if item.value.isascii() else item.value.encode('utf-8')[:-1] + b'?')", ['C10', 'C03'], 'last byte of non-ASCII strings replaced'),
    ('include_bytes_truncate', A, "        with open(item.path, 'rb') as f:\n            data = f.read()\n\n        # defense against the dark race conditions\n        assert len(data) == item.fsize", "        with open(item.path, 'rb') as f:\n            data = f.read()\n        if len(data) > 4096:\n            data = data[:4096] + bytes(len(data) - 4096)\n\n        # defense against the dark race conditions\n        assert len(data) == item.fsize", ['C10'], 'big blobs zeroed after 4 KiB'),
    ('compress_fails_on_alias_shift', A, "Arithmetic(str(lookup_register(item.rs2)))", "Arithmetic(item.rs2)", ['C12'], '[all] re-introduces F4'),
    ('far_call_threshold', A, "                if value >= (-2**20) and max(value, worst) <= (2**20 - 1):\n                    inst = JTypeInstruction(item.line, 'jal', rd='x1', imm=imm)", "                if value >= (-2**20) and max(value, worst) <= (2**20 + 1):\n                    inst = JTypeInstruction(item.line, 'jal', rd='x1', imm=imm)", ['C05'], 'call to an absolute target at exactly +1 MiB takes the near form and is refused in both modes (label targets never show it: the pessimistic forward distance is 4 larger)'),
    ('tail_uses_x1', A, "                inst = UTypeInstruction(item.line, 'auipc', rd='x6', imm=Hi(imm))", "                inst = UTypeInstruction(item.line, 'auipc', rd='x7', imm=Hi(imm))", ['C05'], 'far tail clobbers x7 / jumps through wrong reg'),
]

# behaviour-preserving refactorings: NO check may report a violation on these (run with --controls: all 20 checks each)
CONTROLS = [
    ('ctl_rename_resolve_blobs', A, ["def resolve_blobs(items):", "    program = resolve_blobs(items)"], ["def merge_blobs(items):", "    program = merge_blobs(items)"], [], 'blob-stream hook disappears: fence-label fallback must take over'),
    ('ctl_blob_without_line', A, ["        output.extend(item.data)\n\n    return output"], ["        output.extend(bytes(item.data))\n\n    return bytes(output)"], [], 'assemble returns bytes instead of bytearray'),
    ('ctl_lru_cache_lookup_register', A, ["import abc\n", "def lookup_register(reg, compressed=False):"], ["import abc\nimport functools\n", "@functools.lru_cache(maxsize=None)\ndef lookup_register(reg, compressed=False):"], [], 'memoised register lookup'),
    ('ctl_labels_sorted', A, ["    program = resolve_blobs(items)\n\n    return program"], ["    program = resolve_blobs(items)\n    ordered = dict(sorted(labels.items()))\n    labels.clear()\n    labels.update(ordered)\n\n    return program"], [], 'label table returned in sorted order'),
    ('ctl_error_format', A, ["        s = 'File \"{}\", line {}\\n  {}'"], ["        s = '{}:{}: {}'"], [], 'gcc-style file:line: message'),
    ('ctl_module_cache', A, ["def is_int(value):\n    try:\n        int(value, base=0)\n        return True\n    except:\n        return False"], ["_IS_INT_CACHE = {}\n\n\ndef is_int(value):\n    if value in _IS_INT_CACHE:\n        return _IS_INT_CACHE[value]\n    try:\n        int(value, base=0)\n        res = True\n    except:\n        res = False\n    _IS_INT_CACHE[value] = res\n    return res"], [], 'module-level memo that does not change results'),
    ('ctl_messages_reworded', A, ["raise ValueError('12-bit immediate must be between -0x800 (-2048) and 0x7ff (2047): {}'.format(imm))"], ["raise ValueError('immediate {} does not fit in 12 bits'.format(imm))"], [], '[all] error text changed'),
    ('ctl_dfu_poll_helper', D, ["        # poll state til not busy (an error status ends the wait whichever state comes with it)\n        status, state = dfu_get_status(dev)\n        while state == STATE_DFU_DNBUSY and status == STATUS_OK:\n            status, state = dfu_get_status(dev)\n\n        if status != STATUS_OK:\n            print()\n            raise SystemExit('error erasing page", "    print()\n    print('done!')"],
     ["        # poll state til not busy (an error status ends the wait whichever state comes with it)\n        status, state = dfu_get_status(dev)\n        while state == STATE_DFU_DNBUSY and status == STATUS_OK:\n            time.sleep(0.001)\n            status, state = dfu_get_status(dev)\n\n        if status != STATUS_OK:\n            print()\n            raise SystemExit('error erasing page", "    print()\n    dev.ctrl_transfer(USB_ENDPOINT_OUT | USB_REQUEST_TYPE_CLASS | USB_RECIPIENT_INTERFACE, REQUEST_DFU_DNLOAD, data_or_wLength=b'', timeout=1000)\n    print('finished, leaving DFU mode')"], [], 'extra sleep, DfuSe leave request at the end, other final message'),
]


def run(cmd, cwd=None, env=None, timeout=1800):
    return subprocess.run(cmd, cwd=cwd, env=env, capture_output=True, text=True, timeout=timeout)


def one(mut, tier, allchecks):
    name, rel, find, repl, props, note = mut
    d = tempfile.mkdtemp(prefix='bbv-mut-%s-' % name)
    res = {'name': name, 'props': props, 'note': note, 'tests': None, 'checks': {}}
    try:
        for sub in ('bronzebeard', 'tests', 'docs', 'examples', 'setup.py'):
            s = os.path.join(REPO, sub)
            (shutil.copytree if os.path.isdir(s) else shutil.copy)(s, os.path.join(d, sub))
        p = os.path.join(d, rel)
        src = open(p).read()
        edits = list(zip(find, repl)) if isinstance(find, list) else [(find, repl)]
        for f1, r1 in edits:
            if src.count(f1) != 1 and not (note.startswith('[all]') and src.count(f1) > 1):
                res['tests'] = 'PATCH DOES NOT APPLY (%d matches of %r)' % (src.count(f1), f1[:40])
                return res
            src = src.replace(f1, r1)
        open(p, 'w').write(src)
        r = run([PY, '-m', 'pytest', '-q', '-p', 'no:cacheprovider', '-x'], cwd=d, env=dict(os.environ, PYTHONDONTWRITEBYTECODE='1'))
        tail = r.stdout.strip().splitlines()[-1] if r.stdout.strip() else r.stderr[-100:]
        res['tests'] = 'pass' if r.returncode == 0 else 'killed by tests (%s)' % tail[:60]
        if r.returncode != 0:
            return res
        todo = props if not allchecks else ['C%02d' % i for i in range(1, 21)]
        for prop in todo:
            t0 = time.time()
            env = dict(os.environ, VERIF_REPO=d, BBV_EVIDENCE_DIR=os.path.join(d, 'evidence'), BBV_REPLAY_DIR=os.path.join(d, 'replays'), PYTHONDONTWRITEBYTECODE='1')
            r = run([PY, '-m', 'bbv', prop, '--tier', tier], cwd=HERE, env=env)
            first = next((l for l in r.stdout.splitlines() if l.strip().startswith('what:')), '')
            res['checks'][prop] = {'rc': r.returncode, 's': round(time.time() - t0, 1), 'what': first.strip()[:160]}
    finally:
        shutil.rmtree(d, ignore_errors=True)
    return res


def main():
    ap = argparse.ArgumentParser()
    ap.add_argument('--tier', default='quick')
    ap.add_argument('--only')
    ap.add_argument('--jobs', type=int, default=3)
    ap.add_argument('--controls', action='store_true', help='run the behaviour-preserving refactorings against all 20 checks (writes tools/CONTROLS.md)')
    ap.add_argument('--all-checks', action='store_true', help='run all 20 checks against every mutant (false-alarm matrix)')
    args = ap.parse_args()
    muts = [m for m in M if m[0] != 'include_rel_to_cwd']
    if args.controls:
        muts = CONTROLS
        args.all_checks = True
    if args.only:
        muts = [m for m in muts if m[0] in args.only.split(',')]
    with cf.ThreadPoolExecutor(args.jobs) as ex:
        results = list(ex.map(lambda m: one(m, args.tier, args.all_checks), muts))
    lines = ['# Mutation self-test of the bbv checks', '', 'Generated by `tools/mutest.py --tier %s`.  rc 1 = VIOLATION reported, 0 = held, 2 = inconclusive.' % args.tier, '',
             '| mutant | repo tests | expected | result | first witness |', '|---|---|---|---|---|']
    missed = 0
    for r in results:
        if not r['checks']:
            lines.append('| %s | %s | %s | - | %s |' % (r['name'], r['tests'], ' '.join(r['props']) or '(control)', r['note']))
            continue
        cells = []
        for p, c in r['checks'].items():
            cells.append('%s rc=%d %.0fs' % (p, c['rc'], c['s']))
            if p in r['props'] and c['rc'] != 1:
                missed += 1
        w = next((c['what'] for c in r['checks'].values() if c['what']), '')
        lines.append('| %s | %s | %s | %s | %s |' % (r['name'], r['tests'], ' '.join(r['props']) or '(control)', '; '.join(cells), (w or r['note']).replace('|', '/')))
    lines.append('')
    lines.append('expected detections missed: %d' % missed)
    out = '\n'.join(lines) + '\n'
    if not args.only:
        open(os.path.join(HERE, 'tools', 'CONTROLS.md' if args.controls else 'MUTANTS.md'), 'w').write(out)
    print(out)


if __name__ == '__main__':
    main()
